// Package sched is a deterministic interleaving controller on top of the verifhook.Yield scheduling points.
//
// A run executes a few task functions, each on a goroutine of its own. A task stops at every Yield point it
// reaches (and once before it starts); the controller lets exactly one stopped task continue at a time, chosen
// by the caller's choice function, and waits until that task stops again, finishes, or stays silent for
// BlockTimeout — which is taken to mean that it waits for a lock held by a stopped task ("blocked"). A blocked
// task is not eligible until it reports again. Goroutines that are not tasks (background goroutines of the
// server) pass through Yield points untouched.
//
// The controller makes no claim that a silent task is really blocked: if it was only slow, two tasks run at the
// same time for a while, which is still an execution the server has to get right, so an oracle over the outcome
// stays sound; only the reproducibility of that particular schedule suffers.
package sched

import (
	"bytes"
	"fmt"
	"os"
	"runtime"
	"runtime/debug"
	"strconv"
	"strings"
	"sync"
	"time"

	"github.com/echovault/sugardb/verifhook"
)

const (
	stParked = iota
	stRunning
	stBlocked
	stDone
)

type task struct {
	idx    int
	resume chan struct{}
	state  int
	point  string
}

type event struct {
	idx   int
	done  bool
	point string
	panic string
}

// Step is one decision of a run.
type Step struct {
	Enabled []int  `json:"enabled"` // tasks that were stopped at a scheduling point
	Chosen  int    `json:"chosen"`  // the task that was let go
	Point   string `json:"point"`   // the point it was stopped at
	Blocked bool   `json:"blocked"` // it stayed silent (lock wait)
}

// Result of one run.
type Result struct {
	Steps    []Step
	Panics   map[int]string
	Deadlock string // non-empty: no task was eligible and none finished within DeadlockTimeout
}

// Controller runs tasks under a schedule.
type Controller struct {
	BlockTimeout    time.Duration
	DeadlockTimeout time.Duration
	MaxSteps        int
}

var runMu sync.Mutex // one controlled run at a time per process (the yield handler is global)

func gid() int64 {
	var buf [64]byte
	b := buf[:runtime.Stack(buf[:], false)]
	b = bytes.TrimPrefix(b, []byte("goroutine "))
	if i := bytes.IndexByte(b, ' '); i > 0 {
		n, _ := strconv.ParseInt(string(b[:i]), 10, 64)
		return n
	}
	return -1
}

// Run executes the tasks; choose picks the position within enabled of the task to let go.
func (c *Controller) Run(fns []func(), choose func(step int, enabled []int) int) Result {
	runMu.Lock()
	defer runMu.Unlock()
	if c.BlockTimeout == 0 {
		c.BlockTimeout = 15 * time.Millisecond
	}
	if c.DeadlockTimeout == 0 {
		c.DeadlockTimeout = patience(20 * time.Second)
	}
	if c.MaxSteps == 0 {
		c.MaxSteps = 400
	}
	events := make(chan event, 64)
	tasks := make([]*task, len(fns))
	var byGID sync.Map
	for i := range fns {
		tasks[i] = &task{idx: i, resume: make(chan struct{}, 1), state: stRunning}
	}
	verifhook.SetYieldHandler(func(name string) {
		v, ok := byGID.Load(gid())
		if !ok {
			return
		}
		t := v.(*task)
		events <- event{idx: t.idx, point: name}
		<-t.resume
	})
	defer verifhook.SetYieldHandler(nil)
	for i, fn := range fns {
		t, fn := tasks[i], fn
		go func() {
			byGID.Store(gid(), t)
			events <- event{idx: t.idx, point: "start"}
			<-t.resume
			defer func() {
				ev := event{idx: t.idx, done: true}
				if r := recover(); r != nil {
					ev.panic = fmt.Sprintf("%v\n%s", r, debug.Stack())
				}
				byGID.Delete(gid())
				events <- ev
			}()
			fn()
		}()
	}
	res := Result{Panics: map[int]string{}}
	apply := func(ev event) {
		t := tasks[ev.idx]
		if ev.done {
			t.state = stDone
			if ev.panic != "" {
				res.Panics[ev.idx] = ev.panic
			}
			return
		}
		t.state, t.point = stParked, ev.point
	}
	// wait for every task to reach its start point
	for n := 0; n < len(fns); n++ {
		apply(<-events)
	}
	// waitFor processes events until pred holds or the timeout passes
	waitFor := func(d time.Duration, pred func() bool) bool {
		deadline := time.NewTimer(d)
		defer deadline.Stop()
		for !pred() {
			select {
			case ev := <-events:
				apply(ev)
			case <-deadline.C:
				return pred()
			}
		}
		return true
	}
	count := func(st int) int {
		n := 0
		for _, t := range tasks {
			if t.state == st {
				n++
			}
		}
		return n
	}
	// finish lets every remaining task run freely (used when giving up)
	finish := func() {
		verifhook.SetYieldHandler(nil)
		for _, t := range tasks {
			if t.state == stParked {
				t.state = stRunning
				t.resume <- struct{}{}
			}
		}
		// tasks that are inside the old handler still wait on resume: keep feeding them
		waitUntil := time.Now().Add(c.DeadlockTimeout)
		for count(stDone) < len(tasks) && time.Now().Before(waitUntil) {
			select {
			case ev := <-events:
				if ev.done {
					apply(ev)
				} else {
					tasks[ev.idx].resume <- struct{}{}
				}
			case <-time.After(50 * time.Millisecond):
			}
		}
	}
	for step := 0; ; step++ {
		var enabled []int
		for _, t := range tasks {
			if t.state == stParked {
				enabled = append(enabled, t.idx)
			}
		}
		if len(enabled) == 0 {
			if count(stDone) == len(tasks) {
				return res
			}
			// only running/blocked tasks are left: one of them has to report
			before := count(stDone) + count(stParked)
			if !waitFor(c.DeadlockTimeout, func() bool { return count(stDone)+count(stParked) > before }) {
				var stuck []string
				for _, t := range tasks {
					if t.state != stDone {
						stuck = append(stuck, fmt.Sprintf("task %d silent since point %q", t.idx, t.point))
					}
				}
				res.Deadlock = fmt.Sprintf("no task made progress for %v: %v", c.DeadlockTimeout, stuck)
				return res
			}
			step--
			continue
		}
		if step >= c.MaxSteps {
			finish()
			return res
		}
		pos := choose(step, enabled)
		if pos < 0 || pos >= len(enabled) {
			pos = 0
		}
		t := tasks[enabled[pos]]
		st := Step{Enabled: enabled, Chosen: t.idx, Point: t.point}
		t.state = stRunning
		t.resume <- struct{}{}
		if !waitFor(c.BlockTimeout, func() bool { return t.state != stRunning }) {
			t.state = stBlocked
			st.Blocked = true
		}
		res.Steps = append(res.Steps, st)
		// a task that finished may have released what blocked tasks were waiting for: let them report
		if t.state == stDone && count(stBlocked) > 0 {
			waitFor(c.BlockTimeout, func() bool { return count(stBlocked) == 0 })
		}
	}
}

// Explore enumerates schedules depth-first: run(prefix) executes one schedule that follows prefix (positions
// within the enabled set) and then always picks the first eligible task, and returns the decisions made. It
// stops after max schedules and reports whether the tree was exhausted.
func Explore(max int, run func(choose func(step int, enabled []int) int) (steps []Step, stop bool)) (schedules int, exhausted bool) {
	var prefix []int
	for schedules < max {
		var made []int
		var widths []int
		steps, stop := run(func(step int, enabled []int) int {
			pos := 0
			if step < len(prefix) {
				pos = prefix[step]
				if pos >= len(enabled) {
					pos = len(enabled) - 1
				}
			}
			made = append(made, pos)
			widths = append(widths, len(enabled))
			return pos
		})
		_ = steps
		schedules++
		if stop {
			return schedules, false
		}
		// next prefix: the deepest decision that still has an untried alternative
		i := len(made) - 1
		for i >= 0 && made[i]+1 >= widths[i] {
			i--
		}
		if i < 0 {
			return schedules, true
		}
		prefix = append(append([]int{}, made[:i]...), made[i]+1)
	}
	return schedules, false
}

// patience stretches the deadlock verdict on an overloaded machine (same rule as sut.Patience; sched does not
// import sut).
func patience(d time.Duration) time.Duration {
	b, err := os.ReadFile("/proc/loadavg")
	if err != nil {
		return d
	}
	f := strings.Fields(string(b))
	if len(f) == 0 {
		return d
	}
	load, err := strconv.ParseFloat(f[0], 64)
	if err != nil {
		return d
	}
	per := load / float64(runtime.NumCPU())
	if per < 1 {
		return d
	}
	if per > 7 {
		per = 7
	}
	return time.Duration(float64(d) * (1 + 2*per))
}
