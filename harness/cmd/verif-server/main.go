// verif-server starts one SugarDB instance from a JSON configuration given as the first argument and
// serves TCP until it is killed. It is the subprocess SUT of the checks that must survive a server crash.
package main

import (
	"encoding/json"
	"fmt"
	"os"
	"time"

	"github.com/echovault/sugardb/sugardb"
)

type conf struct {
	DataDir          string `json:"data_dir"`
	Port             int    `json:"port"`
	RequirePass      bool   `json:"require_pass"`
	Password         string `json:"password"`
	AclConfig        string `json:"acl_config"`
	Policy           string `json:"policy"`
	MaxMemory        uint64 `json:"max_memory"`
	AOFSync          string `json:"aof_sync"`
	RestoreAOF       bool   `json:"restore_aof"`
	RestoreSnapshot  bool   `json:"restore_snapshot"`
	EvictionInterval int    `json:"eviction_interval_ms"`
}

func main() {
	var c conf
	if len(os.Args) < 2 || json.Unmarshal([]byte(os.Args[1]), &c) != nil {
		fmt.Fprintln(os.Stderr, "usage: verif-server '<json config>'")
		os.Exit(2)
	}
	cfg := sugardb.DefaultConfig()
	cfg.DataDir = c.DataDir
	cfg.BindAddr = "127.0.0.1"
	cfg.Port = uint16(c.Port)
	cfg.RequirePass = c.RequirePass
	cfg.Password = c.Password
	cfg.AclConfig = c.AclConfig
	cfg.EvictionPolicy = "noeviction"
	if c.Policy != "" {
		cfg.EvictionPolicy = c.Policy
	}
	cfg.MaxMemory = c.MaxMemory
	cfg.AOFSyncStrategy = "no"
	if c.AOFSync != "" {
		cfg.AOFSyncStrategy = c.AOFSync
	}
	cfg.RestoreAOF = c.RestoreAOF
	cfg.RestoreSnapshot = c.RestoreSnapshot
	cfg.SnapshotInterval = 0
	cfg.SnapShotThreshold = 1 << 60
	cfg.EvictionInterval = 24 * time.Hour
	if c.EvictionInterval > 0 {
		cfg.EvictionInterval = time.Duration(c.EvictionInterval) * time.Millisecond
	}
	db, err := sugardb.NewSugarDB(sugardb.WithConfig(cfg))
	if err != nil {
		fmt.Fprintln(os.Stderr, "verif-server:", err)
		os.Exit(3)
	}
	fmt.Println("verif-server: listening on", c.Port)
	db.Start()
}
