package sut

import (
	"encoding/json"
	"fmt"
	"io"
	"os"
	"path/filepath"
	"sort"

	"verifharness/model"
	"verifharness/resp"
)

// CopyDir copies a (small) data directory recursively.
func CopyDir(src, dst string) error {
	return filepath.Walk(src, func(p string, info os.FileInfo, err error) error {
		if err != nil {
			return err
		}
		rel, _ := filepath.Rel(src, p)
		target := filepath.Join(dst, rel)
		if info.IsDir() {
			return os.MkdirAll(target, 0o755)
		}
		in, err := os.Open(p)
		if err != nil {
			return err
		}
		defer in.Close()
		out, err := os.Create(target)
		if err != nil {
			return err
		}
		defer out.Close()
		_, err = io.Copy(out, in)
		return err
	})
}

// FileSize returns the size of a file (0 if missing).
func FileSize(p string) int64 {
	st, err := os.Stat(p)
	if err != nil {
		return 0
	}
	return st.Size()
}

// Digest is the observable dataset of a server over a universe of databases and keys.
type Digest map[string]model.KeyState

// TakeDigest reads every key of every database through the embedded connection.
func (s *Server) TakeDigest(dbs []int, keys []string) Digest {
	d := Digest{}
	do := func(args ...string) (resp.Value, string) { r := s.Do(args...); return r.Val, r.Panic }
	for _, db := range dbs {
		_ = s.Select(db)
		for _, k := range keys {
			ks := model.Observe(do, k)
			if ks.Type != model.TNone {
				d[fmt.Sprintf("%d/%s", db, k)] = ks
			}
		}
	}
	return d
}

// Canon renders a digest canonically (sorted keys).
func (d Digest) Canon() string {
	ks := make([]string, 0, len(d))
	for k := range d {
		ks = append(ks, k)
	}
	sort.Strings(ks)
	out := "{"
	for i, k := range ks {
		if i > 0 {
			out += "; "
		}
		out += k + "=" + d[k].Canon()
	}
	return out + "}"
}

// Equal compares two digests; emptied collections that linger count as absent.
func (d Digest) Equal(o Digest) bool { return d.Diff(o) == "" }

// Diff returns a description of the first difference ("" if equal).
func (d Digest) Diff(o Digest) string {
	seen := map[string]bool{}
	for k := range d {
		seen[k] = true
	}
	for k := range o {
		seen[k] = true
	}
	ks := make([]string, 0, len(seen))
	for k := range seen {
		ks = append(ks, k)
	}
	sort.Strings(ks)
	for _, k := range ks {
		a, aok := d[k]
		b, bok := o[k]
		if !aok {
			a = model.KeyState{Type: model.TNone, Deadline: -2}
		}
		if !bok {
			b = model.KeyState{Type: model.TNone, Deadline: -2}
		}
		if df := model.CompareKey(k, a, b); df != nil {
			return fmt.Sprintf("key %s (%s): %s vs %s", k, df.Part, a.Canon(), b.Canon())
		}
	}
	return ""
}

// JSON renders the digest as JSON (for replay files).
func (d Digest) JSON() string { b, _ := json.Marshal(d); return string(b) }
