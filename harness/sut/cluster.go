package sut

import (
	"fmt"
	"time"

	"github.com/echovault/sugardb/sugardb"
	"github.com/echovault/sugardb/verifhook"
)

// Node is one member of an in-process raft cluster.
type Node struct {
	*Server
	ID      string
	Port    int
	Forward bool
}

// Cluster is an in-process raft cluster built through the public configuration only.
type Cluster struct {
	Nodes []*Node
	Clock *verifhook.VirtualClock
	disc0 int
	// MaxMemory, when set before the nodes are created (NewClusterWith), limits every node (policy noeviction).
	MaxMemory uint64
}

func newNode(id string, bootstrap bool, join string, forward bool, clk *verifhook.VirtualClock, maxMemory uint64) (*Node, int, error) {
	conf := sugardb.DefaultConfig()
	conf.DataDir = ""
	conf.ServerID = id
	conf.BindAddr = "127.0.0.1"
	conf.Port = uint16(FreePort())
	conf.DiscoveryPort = uint16(FreePort())
	conf.RaftBindAddr = "127.0.0.1"
	conf.RaftBindPort = uint16(FreePort())
	conf.BootstrapCluster = bootstrap
	conf.JoinAddr = join
	conf.ForwardCommand = forward
	conf.EvictionPolicy = "noeviction"
	conf.MaxMemory = maxMemory
	opts := []func(*sugardb.SugarDB){sugardb.WithConfig(conf), sugardb.WithVerifClock(clk)}
	db, err := sugardb.NewSugarDB(opts...)
	if err != nil {
		return nil, 0, err
	}
	go db.Start()
	n := &Node{Server: &Server{DB: db, Clock: clk}, ID: id, Port: int(conf.Port), Forward: forward}
	return n, int(conf.DiscoveryPort), nil
}

// NewCluster starts size nodes; node 0 bootstraps, the others join it. forward[i] sets ForwardCommand.
func NewCluster(size int, forward func(i int) bool) (*Cluster, error) {
	return NewClusterWith(size, forward, 0)
}

// NewClusterWith is NewCluster with a memory limit (0 = none) on every node.
func NewClusterWith(size int, forward func(i int) bool, maxMemory uint64) (*Cluster, error) {
	c := &Cluster{Clock: verifhook.NewVirtualClock(Epoch), MaxMemory: maxMemory}
	n0, disc, err := newNode("SERVER-0", true, "", forward(0), c.Clock, maxMemory)
	if err != nil {
		return nil, err
	}
	c.Nodes = append(c.Nodes, n0)
	c.disc0 = disc
	if !waitFor(15*time.Second, func() bool { return n0.DB.GetServerInfo().Role == "master" }) {
		return nil, fmt.Errorf("bootstrap node did not become leader within 15 s")
	}
	for i := 1; i < size; i++ {
		if _, err := c.Join(fmt.Sprintf("SERVER-%d", i), forward(i)); err != nil {
			return nil, err
		}
	}
	return c, nil
}

// Join adds a node to the running cluster and waits until it has applied a marker written through the leader.
func (c *Cluster) Join(id string, forward bool) (*Node, error) {
	n, _, err := newNode(id, false, fmt.Sprintf("SERVER-0/127.0.0.1:%d", c.disc0), forward, c.Clock, c.MaxMemory)
	if err != nil {
		return nil, err
	}
	c.Nodes = append(c.Nodes, n)
	marker := "zz-marker-" + id
	leader := c.Leader()
	if leader == nil {
		return nil, fmt.Errorf("no leader")
	}
	_ = leader.Select(0)
	_ = n.Select(0)
	ok := waitFor(30*time.Second, func() bool {
		leader.Do("SET", marker, "1")
		r := n.Do("GET", marker)
		s, _ := r.Val.Text()
		return s == "1"
	})
	if !ok {
		return nil, fmt.Errorf("node %s did not join / replicate within 30 s", id)
	}
	return n, nil
}

// Leader returns the node that reports the master role.
func (c *Cluster) Leader() *Node {
	for _, n := range c.Nodes {
		if n.DB.GetServerInfo().Role == "master" {
			return n
		}
	}
	return nil
}

// Close shuts every node down.
func (c *Cluster) Close() {
	for i := len(c.Nodes) - 1; i >= 0; i-- {
		c.Nodes[i].Close()
	}
}

func waitFor(d time.Duration, f func() bool) bool {
	deadline := time.Now().Add(d)
	for time.Now().Before(deadline) {
		if f() {
			return true
		}
		time.Sleep(20 * time.Millisecond)
	}
	return false
}

// WaitFor polls f until it holds or d has passed.
func WaitFor(d time.Duration, f func() bool) bool { return waitFor(d, f) }
