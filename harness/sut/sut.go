// Package sut wraps the system under test (an embedded SugarDB instance) behind the small surface the
// checks use. It sees SugarDB only through its public API plus the verif hook package.
package sut

import (
	"fmt"
	"io"
	"log"
	"os"
	"path/filepath"
	"runtime/debug"
	"strings"
	"sync/atomic"
	"time"

	"github.com/echovault/sugardb/sugardb"
	"github.com/echovault/sugardb/verifhook"

	"verifharness/resp"
)

func init() {
	// The server logs every deleted key, connection and restore step; none of that is an observation.
	if os.Getenv("VERIF_LOG") == "" {
		log.SetOutput(io.Discard)
	}
}

// Epoch is the instant every virtual clock starts at (an arbitrary fixed date, whole second).
var Epoch = time.Date(2030, 1, 2, 3, 4, 5, 0, time.UTC)

// Opts configures one server instance.
type Opts struct {
	DataDir           string // required for anything that persists; "" = fresh scratch dir
	Policy            string // eviction policy, default noeviction
	MaxMemory         uint64
	EvictionSample    uint
	EvictionInterval  time.Duration
	RestoreAOF        bool
	RestoreSnapshot   bool
	AOFSync           string // default "no"
	SnapshotThreshold uint64
	SnapshotInterval  time.Duration // 0 = no snapshot goroutine
	Port              int           // 0 = no TCP
	RequirePass       bool
	Password          string
	AclConfig         string
	Clock             *verifhook.VirtualClock // nil = new clock at Epoch
	RealClock         bool
}

// Server is one running instance.
type Server struct {
	DB    *sugardb.SugarDB
	Clock *verifhook.VirtualClock
	Dir   string
	Opts  Opts
	// Commands counts executed commands (evidence).
	Commands int64
}

var scratchSeq atomic.Int64

// ScratchRoot is where throw-away data directories live: $VERIF_TMP or /verif/build/tmp.
func ScratchRoot() string {
	if d := os.Getenv("VERIF_TMP"); d != "" {
		return d
	}
	return "/verif/build/tmp"
}

// NewClockAt returns a virtual clock standing at the given unix milliseconds.
func NewClockAt(ms int64) *verifhook.VirtualClock { return verifhook.NewVirtualClock(time.UnixMilli(ms)) }

// NewScratchDir makes a fresh directory under the scratch root.
func NewScratchDir(prefix string) string {
	d := filepath.Join(ScratchRoot(), fmt.Sprintf("%s-%d-%d", prefix, os.Getpid(), scratchSeq.Add(1)))
	_ = os.MkdirAll(d, 0o755)
	return d
}

// New starts a server.
func New(o Opts) (*Server, error) {
	conf := sugardb.DefaultConfig()
	if o.DataDir == "" {
		o.DataDir = NewScratchDir("data")
	}
	conf.DataDir = o.DataDir
	conf.EvictionPolicy = "noeviction"
	if o.Policy != "" {
		conf.EvictionPolicy = o.Policy
	}
	conf.MaxMemory = o.MaxMemory
	if o.EvictionSample != 0 {
		conf.EvictionSample = o.EvictionSample
	}
	conf.EvictionInterval = 24 * time.Hour // the harness owns the sampler ticks
	if o.EvictionInterval != 0 {
		conf.EvictionInterval = o.EvictionInterval
	}
	conf.RestoreAOF = o.RestoreAOF
	conf.RestoreSnapshot = o.RestoreSnapshot
	conf.AOFSyncStrategy = "no"
	if o.AOFSync != "" {
		conf.AOFSyncStrategy = o.AOFSync
	}
	conf.SnapShotThreshold = 1 << 60
	if o.SnapshotThreshold != 0 {
		conf.SnapShotThreshold = o.SnapshotThreshold
	}
	conf.SnapshotInterval = o.SnapshotInterval
	conf.BindAddr = "127.0.0.1"
	if o.Port != 0 {
		conf.Port = uint16(o.Port)
	}
	conf.RequirePass = o.RequirePass
	conf.Password = o.Password
	conf.AclConfig = o.AclConfig

	s := &Server{Dir: o.DataDir, Opts: o}
	options := []func(*sugardb.SugarDB){sugardb.WithConfig(conf)}
	if o.RealClock {
		// (Left to itself the server picks a frozen mock clock whenever the name of the executable contains
		// ".test", which is the case for every check binary: "real clock" has to be asked for explicitly.)
		options = append(options, sugardb.WithVerifClock(wallClock{}))
	}
	if !o.RealClock {
		s.Clock = o.Clock
		if s.Clock == nil {
			s.Clock = verifhook.NewVirtualClock(Epoch)
		}
		options = append(options, sugardb.WithVerifClock(s.Clock))
	}
	var db *sugardb.SugarDB
	var err error
	func() {
		defer func() {
			if r := recover(); r != nil {
				err = fmt.Errorf("panic in NewSugarDB: %v\n%s", r, debug.Stack())
			}
		}()
		db, err = sugardb.NewSugarDB(options...)
	}()
	if err != nil {
		return nil, err
	}
	s.DB = db
	if o.Port != 0 {
		go db.Start()
	}
	return s, nil
}

// Close shuts the server down (closes the AOF file).
func (s *Server) Close() {
	defer func() { _ = recover() }()
	s.DB.ShutDown()
}

// Reply is the observation of one command.
type Reply struct {
	Raw      []byte
	Val      resp.Value
	Panic    string // non-empty when the handler panicked
	Strict   bool   // Raw parsed as exactly one well-formed RESP value
	ParseErr string
}

func (r Reply) String() string {
	if r.Panic != "" {
		return "PANIC(" + firstLine(r.Panic) + ")"
	}
	if r.ParseErr != "" && !r.Strict {
		return fmt.Sprintf("MALFORMED(%q)", trunc(string(r.Raw), 60))
	}
	return r.Val.Canon()
}

func firstLine(s string) string {
	if i := strings.IndexByte(s, '\n'); i >= 0 {
		return s[:i]
	}
	return s
}

func trunc(s string, n int) string {
	if len(s) > n {
		return s[:n] + "..."
	}
	return s
}

// Do runs one command through the embedded API. A Go error from the handler is an error reply; a
// panic is caught and reported in Reply.Panic (and as an error-kind value, so that "must fail" oracles
// still see a failure, while checks that care about crashes look at Panic).
func (s *Server) Do(args ...string) (rep Reply) {
	atomic.AddInt64(&s.Commands, 1)
	// The handler runs on a goroutine of its own so that a command that never returns (a lock that is never
	// released, a loop that never ends) is reported instead of hanging the check until its time-out.
	done := make(chan Reply, 1)
	go func() {
		defer func() {
			if r := recover(); r != nil {
				done <- Reply{Panic: fmt.Sprintf("%v\n%s", r, debug.Stack()), Val: resp.Value{Kind: resp.Err, Str: fmt.Sprintf("PANIC %v", r)}}
			}
		}()
		raw, err := s.DB.ExecuteCommand(args...)
		if err != nil {
			done <- Reply{Raw: raw, Val: resp.Value{Kind: resp.Err, Str: err.Error()}, Strict: true}
			return
		}
		done <- Decode(raw)
	}()
	select {
	case rep = <-done:
		return rep
	case <-time.After(Patience(HangTimeout)):
		msg := fmt.Sprintf("HANG: %q did not return within %v", trunc(strings.Join(args, " "), 80), Patience(HangTimeout))
		return Reply{Panic: msg, Val: resp.Value{Kind: resp.Err, Str: msg}}
	}
}

// DoInline runs one command on the calling goroutine (no hang watchdog): for callers whose goroutine identity
// matters (the schedule controller recognises its tasks by goroutine).
func (s *Server) DoInline(args ...string) (rep Reply) {
	atomic.AddInt64(&s.Commands, 1)
	defer func() {
		if r := recover(); r != nil {
			rep = Reply{Panic: fmt.Sprintf("%v\n%s", r, debug.Stack()), Val: resp.Value{Kind: resp.Err, Str: fmt.Sprintf("PANIC %v", r)}}
		}
	}()
	raw, err := s.DB.ExecuteCommand(args...)
	if err != nil {
		return Reply{Raw: raw, Val: resp.Value{Kind: resp.Err, Str: err.Error()}, Strict: true}
	}
	return Decode(raw)
}

// HangTimeout is how long an embedded command may take before it is reported as hung (stretched by Patience).
var HangTimeout = 30 * time.Second

// Decode parses raw reply bytes strictly, falling back to the lenient reading that the non-protocol
// checks use (the strictness itself is C12's business).
func Decode(raw []byte) Reply {
	v, err := resp.ParseExact(raw)
	if err == nil {
		return Reply{Raw: raw, Val: v, Strict: true}
	}
	rep := Reply{Raw: raw, ParseErr: err.Error()}
	// Lenient readings of the two malformed shapes the baseline emits.
	if len(raw) >= 3 && raw[0] == '+' && raw[len(raw)-2] == '\r' && raw[len(raw)-1] == '\n' {
		rep.Val = resp.Value{Kind: resp.Simple, Str: string(raw[1 : len(raw)-2])}
		return rep
	}
	if string(raw) == "*0" {
		rep.Val = resp.Value{Kind: resp.Array}
		return rep
	}
	if len(raw) == 0 {
		rep.Val = resp.Value{Kind: resp.Nil}
		rep.ParseErr = "empty reply"
		return rep
	}
	rep.Val = resp.Value{Kind: resp.Err, Str: "MALFORMED " + err.Error()}
	return rep
}

// Select switches the embedded connection's database.
func (s *Server) Select(db int) error { return s.DB.SelectDB(db) }

// MemoryUsed returns the server's reported memory figure.
func (s *Server) MemoryUsed() int64 { return s.DB.GetServerInfo().MemoryUsed }

// WaitAsync waits for the fire-and-forget cache goroutines to finish.
func (s *Server) WaitAsync() bool { return verifhook.WaitAsyncIdle(5 * time.Second) }

// RemoveDir deletes the data directory.
func (s *Server) RemoveDir() { _ = os.RemoveAll(s.Dir) }

// wallClock follows the system clock.
type wallClock struct{}

func (wallClock) Now() time.Time                         { return time.Now() }
func (wallClock) After(d time.Duration) <-chan time.Time { return time.After(d) }
