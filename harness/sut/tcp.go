package sut

import (
	"fmt"
	"net"
	"os"
	"path/filepath"
	"runtime"
	"strconv"
	"strings"
	"sync"
	"syscall"
	"time"

	"verifharness/resp"
)

// FreePort returns a TCP port on the loopback interface that no other check process will hand out.
//
// Asking the kernel for an ephemeral port and closing it again is not enough when a dozen check processes run
// side by side: two of them can be given the same port before either has started its server, the second server
// then fails to listen, and its harness talks to the first process's server (seen once as an ACL table that
// "changed by itself"). Every process therefore reserves blocks of 250 ports below the ephemeral range with an
// advisory file lock that it holds until it exits, and cycles through its own blocks.
func FreePort() int {
	portMu.Lock()
	defer portMu.Unlock()
	for attempt := 0; attempt < 4*portBlockSize; attempt++ {
		if len(portBlocks) == 0 || portNext >= len(portBlocks)*portBlockSize*3 {
			// no block yet, or every port of the blocks held was tried three times over: take one more block
			if b := reservePortBlock(); b >= 0 {
				portBlocks = append(portBlocks, b)
			}
		}
		if len(portBlocks) == 0 {
			break
		}
		i := portNext % (len(portBlocks) * portBlockSize)
		portNext++
		port := portRangeLo + portBlocks[i/portBlockSize]*portBlockSize + i%portBlockSize
		l, err := net.Listen("tcp", "127.0.0.1:"+strconv.Itoa(port))
		if err != nil {
			continue // still held by a server of an earlier case of this process (or by a stranger)
		}
		_ = l.Close()
		return port
	}
	// fall back to the kernel's choice
	l, err := net.Listen("tcp", "127.0.0.1:0")
	if err != nil {
		return 0
	}
	defer l.Close()
	return l.Addr().(*net.TCPAddr).Port
}

const (
	portRangeLo   = 10000
	portRangeHi   = 32000
	portBlockSize = 250
)

var (
	portMu     sync.Mutex
	portBlocks []int
	portNext   int
	portLocks  []*os.File // kept open: the locks last as long as the process
)

func reservePortBlock() int {
	dir := filepath.Join(os.TempDir(), "verif-port-blocks")
	if err := os.MkdirAll(dir, 0o777); err != nil {
		return -1
	}
	n := (portRangeHi - portRangeLo) / portBlockSize
	start := os.Getpid() % n
	for k := 0; k < n; k++ {
		b := (start + k) % n
		f, err := os.OpenFile(filepath.Join(dir, strconv.Itoa(b)), os.O_CREATE|os.O_RDWR, 0o666)
		if err != nil {
			continue
		}
		if err := syscall.Flock(int(f.Fd()), syscall.LOCK_EX|syscall.LOCK_NB); err != nil {
			_ = f.Close()
			continue
		}
		portLocks = append(portLocks, f)
		return b
	}
	return -1
}

// Conn is one TCP client connection speaking RESP.
type Conn struct {
	C       net.Conn
	buf     []byte
	Timeout time.Duration
}

// Dial connects to a server listening on port (retrying while it starts).
func Dial(port int) (*Conn, error) { return DialWithin(port, time.Second) }

// DialWithin is Dial with a given patience (stretched on an overloaded machine): a server that replays a long
// append-only log before it listens needs more than the second a fresh server needs.
func DialWithin(port int, d time.Duration) (*Conn, error) {
	var last error
	deadline := time.Now().Add(Patience(d))
	for i := 0; i < 200 || time.Now().Before(deadline); i++ {
		c, err := net.DialTimeout("tcp", "127.0.0.1:"+strconv.Itoa(port), time.Second)
		if err == nil {
			return &Conn{C: c, Timeout: 5 * time.Second}, nil
		}
		last = err
		time.Sleep(5 * time.Millisecond)
	}
	return nil, last
}

// Encode renders a command as a RESP array of bulk strings.
func Encode(args ...string) []byte {
	b := []byte(fmt.Sprintf("*%d\r\n", len(args)))
	for _, a := range args {
		b = append(b, fmt.Sprintf("$%d\r\n", len(a))...)
		b = append(b, a...)
		b = append(b, '\r', '\n')
	}
	return b
}

// Send writes raw bytes.
func (c *Conn) Send(b []byte) error {
	_ = c.C.SetWriteDeadline(time.Now().Add(c.Timeout))
	_, err := c.C.Write(b)
	return err
}

// ReadValue reads exactly one complete RESP value (strict), waiting up to the timeout.
// ok=false with err=nil means time-out with an incomplete or empty buffer (the partial bytes stay buffered).
func (c *Conn) ReadValue(timeout time.Duration) (resp.Value, []byte, error) {
	deadline := time.Now().Add(Patience(timeout))
	tmp := make([]byte, 65536)
	for {
		if len(c.buf) > 0 {
			v, n, err := resp.ParseOne(c.buf, 0)
			if err == nil {
				raw := append([]byte(nil), c.buf[:n]...)
				c.buf = c.buf[n:]
				return v, raw, nil
			}
			if !resp.IsIncomplete(err) {
				raw := append([]byte(nil), c.buf...)
				return resp.Value{}, raw, err
			}
		}
		if time.Now().After(deadline) {
			return resp.Value{}, append([]byte(nil), c.buf...), errTimeout
		}
		_ = c.C.SetReadDeadline(time.Now().Add(20 * time.Millisecond))
		n, err := c.C.Read(tmp)
		if n > 0 {
			c.buf = append(c.buf, tmp[:n]...)
		}
		if err != nil {
			if ne, ok := err.(net.Error); ok && ne.Timeout() {
				continue
			}
			if len(c.buf) > 0 {
				continue2 := false
				if _, _, perr := resp.ParseOne(c.buf, 0); perr == nil {
					continue2 = true
				}
				if continue2 {
					continue
				}
			}
			return resp.Value{}, append([]byte(nil), c.buf...), err
		}
	}
}

type timeoutErr struct{}

func (timeoutErr) Error() string { return "timeout waiting for a reply" }

var errTimeout error = timeoutErr{}

// IsTimeout tells whether err is the ReadValue time-out.
func IsTimeout(err error) bool { _, ok := err.(timeoutErr); return ok }

// Buffered returns (and keeps) the bytes received but not yet consumed.
func (c *Conn) Buffered() []byte { return c.buf }

// Drain reads whatever arrives within d and returns all buffered bytes (consuming them).
func (c *Conn) Drain(d time.Duration) []byte {
	deadline := time.Now().Add(d)
	tmp := make([]byte, 65536)
	for time.Now().Before(deadline) {
		_ = c.C.SetReadDeadline(time.Now().Add(10 * time.Millisecond))
		n, err := c.C.Read(tmp)
		if n > 0 {
			c.buf = append(c.buf, tmp[:n]...)
		}
		if err != nil {
			if ne, ok := err.(net.Error); ok && ne.Timeout() {
				continue
			}
			break
		}
	}
	b := c.buf
	c.buf = nil
	return b
}

// Do sends one command in one write and reads one reply.
func (c *Conn) Do(args ...string) Reply {
	if err := c.Send(Encode(args...)); err != nil {
		return Reply{Val: resp.Value{Kind: resp.Err, Str: "CONN " + err.Error()}, ParseErr: "send: " + err.Error()}
	}
	v, raw, err := c.ReadValue(c.Timeout)
	if err != nil {
		return Reply{Raw: raw, Val: resp.Value{Kind: resp.Err, Str: "CONN " + err.Error()}, ParseErr: err.Error()}
	}
	if len(c.buf) > 0 {
		// bytes after the reply to a single command: a framing defect (C12's business); drop them so
		// that the next command starts clean, and say so.
		extra := c.Drain(30 * time.Millisecond)
		return Reply{Raw: append(raw, extra...), Val: v, ParseErr: "trailing bytes after the reply"}
	}
	return Reply{Raw: raw, Val: v, Strict: true}
}

// Close closes the connection.
func (c *Conn) Close() { _ = c.C.Close() }

// Patience stretches a verdict time-out (one second or more) when the machine is overloaded: a reply that is
// late because sixteen cores serve a hundred runnable processes is not a missing reply. Short polling
// time-outs are left alone. The factor grows with the load average per core, up to 15.
func Patience(d time.Duration) time.Duration {
	if d < time.Second {
		return d
	}
	b, err := os.ReadFile("/proc/loadavg")
	if err != nil {
		return d
	}
	f := strings.Fields(string(b))
	if len(f) == 0 {
		return d
	}
	load, err := strconv.ParseFloat(f[0], 64)
	if err != nil {
		return d
	}
	perCore := load / float64(runtime.NumCPU())
	if perCore < 1 {
		return d
	}
	factor := 1 + 2*perCore
	if factor > 15 {
		factor = 15
	}
	return time.Duration(float64(d) * factor)
}
