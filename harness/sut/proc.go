package sut

import (
	"bytes"
	"encoding/json"
	"fmt"
	"os"
	"os/exec"
	"path/filepath"
	"strings"
	"sync"
	"syscall"
	"time"

	"verifharness/evidence"
)

// ProcOpts configures a subprocess server.
type ProcOpts struct {
	DataDir         string `json:"data_dir"`
	Port            int    `json:"port"`
	RequirePass     bool   `json:"require_pass"`
	Password        string `json:"password"`
	AclConfig       string `json:"acl_config"`
	Policy          string `json:"policy"`
	MaxMemory       uint64 `json:"max_memory"`
	AOFSync         string `json:"aof_sync"`
	RestoreAOF      bool   `json:"restore_aof"`
	RestoreSnapshot bool   `json:"restore_snapshot"`
	// EvictionInterval in milliseconds (0 = a day: the sampler never runs by itself).
	EvictionInterval int  `json:"eviction_interval_ms"`
	Race             bool `json:"-"`
}

// Proc is a running verif-server subprocess.
type Proc struct {
	Opts   ProcOpts
	cmd    *exec.Cmd
	stderr *lockedBuf
	done   chan struct{}
	exit   error
}

type lockedBuf struct {
	mu sync.Mutex
	b  bytes.Buffer
}

func (l *lockedBuf) Write(p []byte) (int, error) {
	l.mu.Lock()
	defer l.mu.Unlock()
	if l.b.Len() > 1<<20 {
		l.b.Reset()
	}
	return l.b.Write(p)
}

func (l *lockedBuf) String() string { l.mu.Lock(); defer l.mu.Unlock(); return l.b.String() }

// ServerBinary is the path of the verif-server binary built by bin/check / bin/setup.
func ServerBinary(race bool) string {
	name := "verif-server"
	if race {
		name = "verif-server.race"
	}
	return filepath.Join(evidence.Root(), "build", name)
}

// StartProc launches the subprocess server and waits until it accepts connections.
func StartProc(o ProcOpts) (*Proc, error) {
	if o.Port == 0 {
		o.Port = FreePort()
	}
	if o.DataDir == "" {
		o.DataDir = NewScratchDir("proc")
	}
	js, _ := json.Marshal(o)
	bin := ServerBinary(o.Race)
	if _, err := os.Stat(bin); err != nil {
		return nil, fmt.Errorf("subprocess server binary %s missing (bin/check builds it)", bin)
	}
	p := &Proc{Opts: o, stderr: &lockedBuf{}, done: make(chan struct{})}
	p.cmd = exec.Command(bin, string(js))
	p.cmd.Stderr = p.stderr
	p.cmd.Stdout = nil
	p.cmd.Dir = o.DataDir
	p.cmd.SysProcAttr = &syscall.SysProcAttr{Pdeathsig: syscall.SIGKILL}
	if err := p.cmd.Start(); err != nil {
		return nil, err
	}
	go func() { p.exit = p.cmd.Wait(); close(p.done) }()
	c, err := DialWithin(o.Port, 20*time.Second)
	if err != nil {
		p.Kill()
		return nil, fmt.Errorf("subprocess server did not come up: %v; stderr: %s", err, tail(p.stderr.String(), 2000))
	}
	c.Close()
	return p, nil
}

// Alive tells whether the process is still running.
func (p *Proc) Alive() bool {
	select {
	case <-p.done:
		return false
	default:
		return true
	}
}

// WaitExit waits up to d for the process to exit.
func (p *Proc) WaitExit(d time.Duration) bool {
	select {
	case <-p.done:
		return true
	case <-time.After(d):
		return false
	}
}

// Stderr returns what the process wrote to stderr (log output, panic traces).
func (p *Proc) Stderr() string { return p.stderr.String() }

// CrashTrace returns the Go panic / fatal error trace from stderr, if any.
func (p *Proc) CrashTrace() string {
	s := p.stderr.String()
	for _, marker := range []string{"panic:", "fatal error:"} {
		if i := strings.LastIndex(s, marker); i >= 0 {
			return tail(s[i:], 3000)
		}
	}
	return ""
}

// Kill terminates the process (SIGKILL).
func (p *Proc) Kill() {
	if p.cmd != nil && p.cmd.Process != nil {
		_ = p.cmd.Process.Kill()
	}
	select {
	case <-p.done:
	case <-time.After(3 * time.Second):
	}
}

func tail(s string, n int) string {
	if len(s) > n {
		return s[len(s)-n:]
	}
	return s
}
