// Package evidence collects per-run coverage counters and writes /verif/evidence/<id>.json.
package evidence

import (
	"encoding/json"
	"fmt"
	"hash/fnv"
	"os"
	"path/filepath"
	"sort"
	"strconv"
	"sync"
	"time"
)

// Root is /verif (overridable for harness self-tests).
func Root() string {
	if d := os.Getenv("VERIF_ROOT"); d != "" {
		return d
	}
	return "/verif"
}

// Tier returns quick|thorough from VERIF_TIER.
func Tier() string {
	if os.Getenv("VERIF_TIER") == "thorough" {
		return "thorough"
	}
	return "quick"
}

// Thorough is true in the thorough tier.
func Thorough() bool { return Tier() == "thorough" }

// Seed returns VERIF_SEED (default 1; 0 is remapped because rapid treats 0 as random).
func Seed() int64 {
	s, err := strconv.ParseInt(os.Getenv("VERIF_SEED"), 10, 64)
	if err != nil {
		return 1
	}
	if s == 0 {
		return 0x5EED
	}
	return s
}

// Shard / Shards: thorough runs split the work over several processes.
func Shard() int  { n, _ := strconv.Atoi(os.Getenv("VERIF_SHARD")); return n }
func Shards() int { n, _ := strconv.Atoi(os.Getenv("VERIF_SHARDS")); return max(n, 1) }

// EnvInt reads an integer knob with a default.
func EnvInt(name string, def int) int {
	if v, err := strconv.Atoi(os.Getenv(name)); err == nil {
		return v
	}
	return def
}

// Recorder accumulates the evidence of one check run (one process).
type Recorder struct {
	mu          sync.Mutex
	Property    string
	Level       string
	Rule        string
	Assumptions []string
	start       time.Time
	evaluations int64
	nontrivial  map[uint64]struct{}
	samples     []any
	sampleSeen  map[uint64]struct{}
	classes     map[string]int64
	excluded    map[string]int64
	extra       map[string]any
	violations  int
	exhaustive  bool
	maxSamples  int
}

// New creates a recorder.
func New(property, level, rule string, assumptions ...string) *Recorder {
	return &Recorder{
		Property: property, Level: level, Rule: rule, Assumptions: assumptions,
		start: time.Now(), nontrivial: map[uint64]struct{}{}, sampleSeen: map[uint64]struct{}{},
		classes: map[string]int64{}, excluded: map[string]int64{}, extra: map[string]any{}, maxSamples: 5,
	}
}

// Hash is FNV-64a of the canonical encoding of a case.
func Hash(canon string) uint64 {
	h := fnv.New64a()
	_, _ = h.Write([]byte(canon))
	return h.Sum64()
}

// Case records one executed case. canon is its canonical encoding (distinctness key); sample is what is
// written out when the case is picked as a sample.
func (r *Recorder) Case(canon string, nontrivial bool, sample any) {
	r.mu.Lock()
	defer r.mu.Unlock()
	r.evaluations++
	if !nontrivial {
		return
	}
	h := Hash(canon)
	if _, ok := r.nontrivial[h]; ok {
		return
	}
	r.nontrivial[h] = struct{}{}
	// Keep the first sample and then a sparse selection (by hash) so samples are spread over the run.
	if len(r.samples) < r.maxSamples && (len(r.samples) == 0 || h%97 == 0) {
		r.samples = append(r.samples, sample)
	}
}

// Class counts a generator class label.
func (r *Recorder) Class(label string) { r.ClassN(label, 1) }

func (r *Recorder) ClassN(label string, n int64) {
	r.mu.Lock()
	r.classes[label] += n
	r.mu.Unlock()
}

// Excluded counts a step/case that was attributed to an open known finding.
func (r *Recorder) Excluded(finding string) {
	r.mu.Lock()
	r.excluded[finding]++
	r.mu.Unlock()
}

// ExcludedCount returns how often a finding was hit in this run.
func (r *Recorder) ExcludedCount(finding string) int64 {
	r.mu.Lock()
	defer r.mu.Unlock()
	return r.excluded[finding]
}

// Add adds n to a numeric extra counter.
func (r *Recorder) Add(key string, n int64) {
	r.mu.Lock()
	v, _ := r.extra[key].(int64)
	r.extra[key] = v + n
	r.mu.Unlock()
}

// Set stores an arbitrary extra value.
func (r *Recorder) Set(key string, v any) {
	r.mu.Lock()
	r.extra[key] = v
	r.mu.Unlock()
}

// Violation counts a violation.
func (r *Recorder) Violation() {
	r.mu.Lock()
	r.violations++
	r.mu.Unlock()
}

func (r *Recorder) Violations() int {
	r.mu.Lock()
	defer r.mu.Unlock()
	return r.violations
}

// SetExhaustive marks the run as a complete enumeration of the space described in Rule.
func (r *Recorder) SetExhaustive(b bool) { r.exhaustive = b }

// Evaluations returns the number of cases so far.
func (r *Recorder) Evaluations() int64 {
	r.mu.Lock()
	defer r.mu.Unlock()
	return r.evaluations
}

type shardFile struct {
	Evaluations int64            `json:"evaluations"`
	Hashes      []uint64         `json:"hashes"`
	Samples     []any            `json:"samples"`
	Classes     map[string]int64 `json:"classes"`
	Excluded    map[string]int64 `json:"excluded"`
	Extra       map[string]any   `json:"extra"`
	Violations  int              `json:"violations"`
	Exhaustive  bool             `json:"exhaustive"`
	WallS       float64          `json:"wall_s"`
	Property    string           `json:"property"`
	Level       string           `json:"level"`
	Rule        string           `json:"rule"`
	Assumptions []string         `json:"assumptions"`
}

// Write writes the evidence. With VERIF_SHARDS > 1 it writes a shard file that the driver merges
// (build/shards/<id>.<n>.json); otherwise it writes evidence/<id>.json directly.
func (r *Recorder) Write() error {
	r.mu.Lock()
	defer r.mu.Unlock()
	sf := shardFile{
		Evaluations: r.evaluations, Samples: r.samples, Classes: r.classes, Excluded: r.excluded, Extra: r.extra,
		Violations: r.violations, Exhaustive: r.exhaustive, WallS: time.Since(r.start).Seconds(),
		Property: r.Property, Level: r.Level, Rule: r.Rule, Assumptions: r.Assumptions,
	}
	for h := range r.nontrivial {
		sf.Hashes = append(sf.Hashes, h)
	}
	sort.Slice(sf.Hashes, func(i, j int) bool { return sf.Hashes[i] < sf.Hashes[j] })
	dir := filepath.Join(Root(), "build", "shards")
	if err := os.MkdirAll(dir, 0o755); err != nil {
		return err
	}
	b, err := json.Marshal(sf)
	if err != nil {
		return err
	}
	// VERIF_SHARD_ID numbers the processes of one run (legs × shards); VERIF_SHARD is the index within a leg.
	return os.WriteFile(filepath.Join(dir, fmt.Sprintf("%s.%d.json", r.Property, EnvInt("VERIF_SHARD_ID", Shard()))), b, 0o644)
}
