package gen

import (
	"sort"
	"strconv"

	"pgregory.net/rapid"

	"verifharness/model"
)

// ExpiryOp is either a command or a clock advance.
type ExpiryOp struct {
	Cmd     []string
	Advance int64 // milliseconds; 0 = not an advance
	Tick    bool  // run one pass of the background expiry sampler
}

func durArg(t *rapid.T, label string, unitMs int64) string {
	// durations in the command's unit around small and large values, zero and negative
	c := []int64{-5, 0, 1, 2, 10, 100, 3600}
	if unitMs == 1 {
		c = []int64{-5, 0, 1, 50, 999, 1000, 1001, 1500, 100000}
	}
	if rapid.IntRange(0, 19).Draw(t, label+"_bad") == 0 {
		return rapid.SampledFrom([]string{"x", "", "1.5"}).Draw(t, label+"_badv")
	}
	return strconv.FormatInt(rapid.SampledFrom(c).Draw(t, label), 10)
}

func absArg(t *rapid.T, now int64, label string, unitMs int64) string {
	// absolute deadlines around now (past, now, near future, far future) and around existing deadlines
	deltas := []int64{-5000, -1, 1, 999, 1000, 1500, 60000, 3600000}
	d := rapid.SampledFrom(deltas).Draw(t, label)
	ts := now + d
	if unitMs == 1000 {
		return strconv.FormatInt(ts/1000, 10)
	}
	return strconv.FormatInt(ts, 10)
}

// ExpiryCmd draws one operation of the C04 state machine.
func ExpiryCmd(t *rapid.T, m *model.Model, keys []string, withTick bool) ExpiryOp {
	k := Key(t, keys, "key")
	now := m.NowMs()
	opt := func() []string {
		if rapid.IntRange(0, 2).Draw(t, "hasopt") == 0 {
			return []string{rapid.SampledFrom([]string{"NX", "XX", "GT", "LT", "nx", "gt", "bogus"}).Draw(t, "eopt")}
		}
		return nil
	}
	hi := 47
	if withTick {
		hi = 50
	}
	switch rapid.IntRange(0, hi).Draw(t, "op") {
	case 0, 1, 2, 3, 4, 5, 6, 7:
		// advance the clock: to just before / just after a deadline, or by a random amount
		var dls []int64
		for _, kk := range keys {
			if e := m.Peek(m.Cur, kk); e != nil && e.Deadline > now {
				dls = append(dls, e.Deadline)
			}
		}
		sort.Slice(dls, func(i, j int) bool { return dls[i] < dls[j] })
		var d int64
		if len(dls) > 0 && rapid.IntRange(0, 3).Draw(t, "toDeadline") > 0 {
			dl := rapid.SampledFrom(dls).Draw(t, "dl")
			d = dl - now + rapid.SampledFrom([]int64{-1, 1, 1, 500}).Draw(t, "around")
		} else {
			d = rapid.SampledFrom([]int64{1, 10, 999, 1000, 1001, 5000, 60000, 7200000}).Draw(t, "adv")
		}
		if d <= 0 {
			d = 1
		}
		// never land exactly on a deadline (both outcomes are allowed there; the model is deterministic)
		for _, dl := range dls {
			if now+d == dl {
				d++
			}
		}
		return ExpiryOp{Advance: d}
	case 8, 9, 10:
		v := rapid.SampledFrom(PlainValues).Draw(t, "v")
		switch rapid.IntRange(0, 6).Draw(t, "setk") {
		case 0:
			return ExpiryOp{Cmd: []string{"SET", k, v}}
		case 1:
			return ExpiryOp{Cmd: []string{"SET", k, v, "EX", durArg(t, "ex", 1000)}}
		case 2:
			return ExpiryOp{Cmd: []string{"SET", k, v, "PX", durArg(t, "px", 1)}}
		case 3:
			return ExpiryOp{Cmd: []string{"SET", k, v, "EXAT", absArg(t, now, "exat", 1000)}}
		case 4:
			return ExpiryOp{Cmd: []string{"SET", k, v, "PXAT", absArg(t, now, "pxat", 1)}}
		case 5:
			return ExpiryOp{Cmd: []string{"SET", k, v, rapid.SampledFrom([]string{"NX", "XX"}).Draw(t, "cond"), "PX", "1500"}}
		default:
			return ExpiryOp{Cmd: []string{"SET", k, v, rapid.SampledFrom([]string{"NX", "XX", "GET"}).Draw(t, "cond")}}
		}
	case 11, 12, 13:
		return ExpiryOp{Cmd: append([]string{"EXPIRE", k, durArg(t, "s", 1000)}, opt()...)}
	case 14, 15, 16:
		return ExpiryOp{Cmd: append([]string{"PEXPIRE", k, durArg(t, "ms", 1)}, opt()...)}
	case 17, 18:
		return ExpiryOp{Cmd: append([]string{"EXPIREAT", k, absArg(t, now, "at", 1000)}, opt()...)}
	case 19, 20:
		return ExpiryOp{Cmd: append([]string{"PEXPIREAT", k, absArg(t, now, "pat", 1)}, opt()...)}
	case 21, 22:
		return ExpiryOp{Cmd: []string{"PERSIST", k}}
	case 23, 24, 25, 26:
		return ExpiryOp{Cmd: []string{rapid.SampledFrom([]string{"TTL", "PTTL", "EXPIRETIME", "PEXPIRETIME"}).Draw(t, "ttl"), k}}
	case 27, 28:
		switch rapid.IntRange(0, 5).Draw(t, "gx") {
		case 0:
			return ExpiryOp{Cmd: []string{"GETEX", k}}
		case 1:
			return ExpiryOp{Cmd: []string{"GETEX", k, "PERSIST"}}
		case 2:
			return ExpiryOp{Cmd: []string{"GETEX", k, "EX", durArg(t, "ex", 1000)}}
		case 3:
			return ExpiryOp{Cmd: []string{"GETEX", k, "PX", durArg(t, "px", 1)}}
		case 4:
			return ExpiryOp{Cmd: []string{"GETEX", k, "EXAT", absArg(t, now, "exat", 1000)}}
		default:
			return ExpiryOp{Cmd: []string{"GETEX", k, "PXAT", absArg(t, now, "pxat", 1)}}
		}
	case 29, 30, 31, 32, 33:
		// observers of every family
		obs := [][]string{
			{"GET", k}, {"MGET", k, Key(t, keys, "k2")}, {"TYPE", k}, {"STRLEN", k}, {"GETRANGE", k, "0", "-1"},
			{"HGET", k, "f"}, {"HLEN", k}, {"HGETALL", k}, {"HEXISTS", k, "f"},
			{"LLEN", k}, {"LRANGE", k, "0", "-1"}, {"LINDEX", k, "0"},
			{"SCARD", k}, {"SISMEMBER", k, "m1"}, {"SMEMBERS", k}, {"SUNION", k, Key(t, keys, "k2")},
			{"ZCARD", k}, {"ZSCORE", k, "m1"}, {"ZRANGE", k, "-inf", "+inf"}, {"ZRANK", k, "m1"}, {"RANDOMKEY"},
		}
		return ExpiryOp{Cmd: rapid.SampledFrom(obs).Draw(t, "obs")}
	case 34, 35, 36, 37, 38:
		// existence-conditional and in-place writers
		k2 := Key(t, keys, "k2")
		w := [][]string{
			{"SET", k, "n", "NX"}, {"SET", k, "x", "XX"}, {"HSETNX", k, "f", "v"}, {"LPUSHX", k, "e"}, {"RPUSHX", k, "e"},
			{"RENAME", k, k2}, {"APPEND", k, "z"}, {"INCR", k}, {"INCRBY", k, "5"}, {"GETDEL", k}, {"DEL", k, k2},
			{"HSET", k, "f", "w"}, {"HINCRBY", k, "n", "1"}, {"RPUSH", k, "e"}, {"LPOP", k}, {"SADD", k, "m1"}, {"SREM", k, "m1"},
			{"ZADD", k, "1", "m1"}, {"ZINCRBY", k, "1", "m1"}, {"SETRANGE", k, "0", "Q"}, {"MSET", k, "ms", k2, "ms2"},
			{"SMOVE", k, k2, "m1"}, {"LMOVE", k, k2, "LEFT", "RIGHT"}, {"SUNIONSTORE", k, k2}, {"ZUNIONSTORE", k, k2},
		}
		return ExpiryOp{Cmd: rapid.SampledFrom(w).Draw(t, "w")}
	case 39, 40, 41, 42, 43:
		// seed a value (any type) so deadlines meet every type
		switch rapid.IntRange(0, 4).Draw(t, "seed") {
		case 0:
			return ExpiryOp{Cmd: []string{"SET", k, rapid.SampledFrom([]string{"v", "10", "abc"}).Draw(t, "sv")}}
		case 1:
			return ExpiryOp{Cmd: []string{"HSET", k, "f", "v", "n", "1"}}
		case 2:
			return ExpiryOp{Cmd: []string{"RPUSH", k, "e1", "e2"}}
		case 3:
			return ExpiryOp{Cmd: []string{"SADD", k, "m1", "m2"}}
		default:
			return ExpiryOp{Cmd: []string{"ZADD", k, "1", "m1", "2", "m2"}}
		}
	case 44, 45:
		return ExpiryOp{Cmd: []string{"DEL", k}}
	case 46:
		return ExpiryOp{Cmd: []string{"FLUSHDB"}}
	case 47:
		return ExpiryOp{Cmd: []string{"TOUCH", k}}
	default:
		return ExpiryOp{Tick: true}
	}
}

// OverwriteCmd draws a command that stores a value under dest without reading dest first (the handlers of
// these commands go straight to the write): the interesting case is a dest whose deadline has just passed
// and which nothing has looked at since.
func OverwriteCmd(t *rapid.T, m *model.Model, dest string, keys []string) []string {
	src := Key(t, keys, "src")
	var opts [][]string
	if e := m.Peek(m.Cur, src); e != nil && src != dest {
		switch e.Type {
		case "set":
			opts = [][]string{{"SUNIONSTORE", dest, src}, {"SINTERSTORE", dest, src}, {"SDIFFSTORE", dest, src}, {"SMOVE", src, dest, existingOr(t, setMembers(e), "mv")}}
		case "zset":
			opts = [][]string{{"ZUNIONSTORE", dest, src}, {"ZINTERSTORE", dest, src}, {"ZDIFFSTORE", dest, src}, {"ZRANGESTORE", dest, src, "0", "-1"}}
		case "list":
			opts = [][]string{{"LMOVE", src, dest, "LEFT", "RIGHT"}, {"LMOVE", src, dest, "RIGHT", "LEFT"}}
		}
		opts = append(opts, []string{"RENAME", src, dest})
	}
	opts = append(opts, []string{"MSET", dest, "ow"}, []string{"SET", dest, "ow"}, []string{"SETRANGE", dest, "0", "Q"}, []string{"APPEND", dest, "z"},
		[]string{"INCR", dest}, []string{"RPUSH", dest, "e"}, []string{"SADD", dest, "m1"}, []string{"HSET", dest, "f", "v"}, []string{"ZADD", dest, "1", "m1"})
	return opts[rapid.IntRange(0, len(opts)-1).Draw(t, "ow")]
}
