package gen

import (
	"strconv"

	"pgregory.net/rapid"

	"verifharness/model"
	"verifharness/sut"
)

// SeedOtherType returns a command that creates a hash / list / set / sorted set under key, so that
// string commands meet every pre-existing type.
func SeedOtherType(t *rapid.T, key string) []string {
	switch rapid.IntRange(0, 3).Draw(t, "seedtype") {
	case 0:
		return []string{"HSET", key, "f", rapid.SampledFrom(PlainValues).Draw(t, "sv")}
	case 1:
		return []string{"RPUSH", key, rapid.SampledFrom(PlainValues).Draw(t, "sv"), "e2"}
	case 2:
		return []string{"SADD", key, rapid.SampledFrom(PlainValues).Draw(t, "sv")}
	default:
		return []string{"ZADD", key, "1.5", rapid.SampledFrom(PlainValues).Draw(t, "sv")}
	}
}

// StringCmd draws one command of the C01 family against the model's current state.
func StringCmd(t *rapid.T, m *model.Model, keys []string) []string {
	k := Key(t, keys, "key")
	e := m.Get(k)
	n := EntryLen(e)
	now := m.NowMs()
	switch rapid.IntRange(0, 40).Draw(t, "cmd") {
	case 0, 1, 2, 3:
		return []string{"SET", k, Value(t, "val")}
	case 4, 5:
		// SET with options
		cmd := []string{"SET", k, Value(t, "val")}
		nopt := rapid.IntRange(1, 3).Draw(t, "nopt")
		for i := 0; i < nopt; i++ {
			switch rapid.IntRange(0, 8).Draw(t, "opt") {
			case 0:
				cmd = append(cmd, "NX")
			case 1:
				cmd = append(cmd, "XX")
			case 2:
				cmd = append(cmd, "GET")
			case 3:
				cmd = append(cmd, "EX", rapid.SampledFrom([]string{"1", "10", "100", "x", "1.5"}).Draw(t, "ex"))
			case 4:
				cmd = append(cmd, "PX", rapid.SampledFrom([]string{"1", "1500", "100000", ""}).Draw(t, "px"))
			case 5:
				cmd = append(cmd, "EXAT", strconv.FormatInt(now/1000+int64(rapid.IntRange(1, 100).Draw(t, "exat")), 10))
			case 6:
				cmd = append(cmd, "PXAT", strconv.FormatInt(now+int64(rapid.IntRange(1, 100000).Draw(t, "pxat")), 10))
			case 7:
				cmd = append(cmd, rapid.SampledFrom([]string{"nx", "xx", "get", "KEEPTTL", "EX", "bogus"}).Draw(t, "oddopt"))
			case 8:
				cmd = append(cmd, "EX")
			}
		}
		return cmd
	case 6, 7, 8, 9:
		return []string{"GET", k}
	case 10, 11:
		np := rapid.IntRange(1, 3).Draw(t, "npairs")
		cmd := []string{"MSET"}
		for i := 0; i < np; i++ {
			cmd = append(cmd, Key(t, keys, "mk"), Value(t, "mv"))
		}
		if rapid.IntRange(0, 9).Draw(t, "odd") == 0 {
			cmd = append(cmd, "dangling")
		}
		return cmd
	case 12, 13:
		nk := rapid.IntRange(1, 3).Draw(t, "nk")
		cmd := []string{"MGET"}
		for i := 0; i < nk; i++ {
			cmd = append(cmd, Key(t, keys, "mk"))
		}
		return cmd
	case 14, 15:
		nk := rapid.IntRange(1, 3).Draw(t, "nk")
		cmd := []string{"DEL"}
		for i := 0; i < nk; i++ {
			cmd = append(cmd, Key(t, keys, "dk"))
		}
		return cmd
	case 16, 17:
		return []string{"INCR", k}
	case 18:
		return []string{"DECR", k}
	case 19, 20:
		return []string{"INCRBY", k, counterArg(t)}
	case 21:
		return []string{"DECRBY", k, counterArg(t)}
	case 22, 23:
		return []string{"INCRBYFLOAT", k, rapid.SampledFrom([]string{"1", "0.5", "-2.25", "1e3", "3.14", "x", "", "1e308", "-0.1", "10"}).Draw(t, "fl")}
	case 24, 25:
		return []string{"APPEND", k, Value(t, "val")}
	case 26, 27:
		return []string{"SETRANGE", k, IntAround(t, n, "off"), Value(t, "val")}
	case 28, 29:
		name := rapid.SampledFrom([]string{"GETRANGE", "SUBSTR"}).Draw(t, "gr")
		return []string{name, k, IntAround(t, n, "s"), IntAround(t, n, "e")}
	case 30, 31:
		return []string{"STRLEN", k}
	case 32, 33:
		return []string{"RENAME", k, Key(t, keys, "k2")}
	case 34:
		return []string{"GETDEL", k}
	case 35, 36:
		switch rapid.IntRange(0, 6).Draw(t, "gx") {
		case 0:
			return []string{"GETEX", k}
		case 1:
			return []string{"GETEX", k, "PERSIST"}
		case 2:
			return []string{"GETEX", k, "EX", rapid.SampledFrom([]string{"10", "100", "x"}).Draw(t, "ex")}
		case 3:
			return []string{"GETEX", k, "PX", "1500"}
		case 4:
			return []string{"GETEX", k, "EXAT", strconv.FormatInt(now/1000+50, 10)}
		case 5:
			return []string{"GETEX", k, "PXAT", strconv.FormatInt(now+77777, 10)}
		default:
			return []string{"GETEX", k, rapid.SampledFrom([]string{"EX", "bogus", "persist"}).Draw(t, "bad")}
		}
	case 37:
		return []string{"TYPE", k}
	case 38:
		if rapid.IntRange(0, 3).Draw(t, "fl") == 0 {
			return []string{"FLUSHDB"}
		}
		return []string{"TYPE", k}
	case 39:
		return SeedOtherType(t, k)
	default:
		// wrong arity
		name := rapid.SampledFrom([]string{"GET", "SET", "INCR", "APPEND", "STRLEN", "GETRANGE", "SETRANGE", "RENAME", "GETDEL", "DEL", "MGET", "INCRBY", "TYPE"}).Draw(t, "arity")
		nargs := rapid.IntRange(0, 4).Draw(t, "nargs")
		cmd := []string{name}
		for i := 0; i < nargs; i++ {
			cmd = append(cmd, Key(t, keys, "ak"))
		}
		return cmd
	}
}

func counterArg(t *rapid.T) string {
	return rapid.SampledFrom([]string{"1", "5", "-3", "0", "100", "9223372036854775807", "-9223372036854775808", "x", "1.5", "", "007"}).Draw(t, "n")
}

var _ = sut.Epoch
