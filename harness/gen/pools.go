// Package gen holds the rapid generators: key/value pools and per-family command grammars.
package gen

import (
	"strconv"
	"strings"

	"pgregory.net/rapid"

	"verifharness/model"
)

// Keys is the default small key alphabet (collisions are the interesting case).
var Keys = []string{"a", "b", "c"}

// Values: the value pool of DESIGN 5.1 (without the very large strings, which are drawn separately).
var Values = []string{
	"", "0", "-1", "1", "10", "007", "+5", "1e3", "3.14", "1.50", "inf", "nan", "-0",
	"9223372036854775807", "9223372036854775808", "-9223372036854775808", " 5", "abc", "a b", "a\r\nb", "\x00", "a\x00",
	"\xff\xfe", "$-1", "*2", "héllo", "xyz", "OK", "nil", "<nil>", "[a b]", "true",
	// values that read like option keywords: a handler (or the log writer) that scans for options by
	// content instead of by position trips over them
	"px", "EX", "nx", "GET", "KEEPTTL", "PERSIST", "WITHSCORES", "LIMIT", "COUNT",
	// integers that need more than 53 bits
	"9007199254740993", "-9007199254740993", "4611686018427387905",
}

// PlainValues contains no numeric-looking strings and no control bytes.
var PlainValues = []string{"abc", "xyz", "a b", "héllo", "v1", "v2", "hello world", "OK", "Z", "px", "EX"}

// Value draws a value: mostly from the pool, sometimes random bytes, rarely large.
func Value(t *rapid.T, label string) string {
	switch rapid.IntRange(0, 19).Draw(t, label+"_kind") {
	case 0, 1:
		return rapid.StringMatching(`[a-z0-9 ]{0,6}`).Draw(t, label+"_rnd")
	case 2:
		b := rapid.SliceOfN(rapid.Byte(), 0, 5).Draw(t, label+"_bytes")
		return string(b)
	case 3:
		n := rapid.SampledFrom([]int{100, 1023, 1024, 1025, 9000}).Draw(t, label+"_len")
		return strings.Repeat("x", n)
	case 4, 5:
		return strconv.Itoa(rapid.IntRange(-3, 120).Draw(t, label+"_int"))
	default:
		return rapid.SampledFrom(Values).Draw(t, label)
	}
}

// Key draws a key from keys.
func Key(t *rapid.T, keys []string, label string) string {
	return rapid.SampledFrom(keys).Draw(t, label)
}

// IntAround draws an integer around the boundaries of n (a length): -n-1, -n, -1, 0, 1, n-1, n, n+1, extremes.
func IntAround(t *rapid.T, n int, label string) string {
	c := []int64{int64(-n - 1), int64(-n), -2, -1, 0, 1, 2, int64(n - 1), int64(n), int64(n + 1), 100}
	switch rapid.IntRange(0, 14).Draw(t, label+"_k") {
	case 0:
		return rapid.SampledFrom([]string{"9223372036854775807", "-9223372036854775808", "x", "", "1.5", "007", "+1"}).Draw(t, label+"_odd")
	default:
		return strconv.FormatInt(rapid.SampledFrom(c).Draw(t, label), 10)
	}
}

// EntryLen returns the length of the model entry relevant for index arguments.
func EntryLen(e *model.Entry) int {
	if e == nil {
		return 0
	}
	switch e.Type {
	case model.TString:
		return len(e.S)
	case model.TList:
		return len(e.L)
	case model.THash:
		return len(e.H)
	case model.TSet:
		return len(e.Set)
	case model.TZSet:
		return len(e.Z)
	}
	return 0
}
