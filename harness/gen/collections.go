package gen

import (
	"sort"
	"strconv"

	"pgregory.net/rapid"

	"verifharness/model"
)

// Members / fields / elements: small alphabet so collisions are frequent, plus odd values.
var Members = []string{"m1", "m2", "m3", "a", "b", "", "0", "10", "007", "x y", "a\r\nb", "\x00", "héllo", "limit", "weights", "-1", "3.14", "abc", "abd", "\xff\xfe", "\xff\xfd"}

func Member(t *rapid.T, label string) string {
	if rapid.IntRange(0, 9).Draw(t, label+"_k") == 0 {
		return rapid.StringMatching(`[a-c]{1,3}`).Draw(t, label+"_rnd")
	}
	return rapid.SampledFrom(Members).Draw(t, label)
}

// existingOr draws one of the existing elements (sorted) with high probability, else a fresh member.
func existingOr(t *rapid.T, existing []string, label string) string {
	if len(existing) > 0 && rapid.IntRange(0, 9).Draw(t, label+"_ex") < 7 {
		sort.Strings(existing)
		return rapid.SampledFrom(existing).Draw(t, label+"_pick")
	}
	return Member(t, label)
}

func hashFields(e *model.Entry) []string {
	var out []string
	if e != nil && e.Type == model.THash {
		for f := range e.H {
			out = append(out, f)
		}
	}
	return out
}

func setMembers(e *model.Entry) []string {
	var out []string
	if e != nil && e.Type == model.TSet {
		for f := range e.Set {
			out = append(out, f)
		}
	}
	return out
}

func zMembers(e *model.Entry) []string {
	var out []string
	if e != nil && e.Type == model.TZSet {
		for f := range e.Z {
			out = append(out, f)
		}
	}
	return out
}

func listElems(e *model.Entry) []string {
	if e != nil && e.Type == model.TList {
		return append([]string{}, e.L...)
	}
	return nil
}

// OtherType draws a command that puts a value of a type other than `not` under key.
func OtherType(t *rapid.T, key, not string) []string {
	for {
		var cmd []string
		var typ string
		switch rapid.IntRange(0, 4).Draw(t, "othertype") {
		case 0:
			cmd, typ = []string{"SET", key, rapid.SampledFrom(PlainValues).Draw(t, "ov")}, model.TString
		case 1:
			cmd, typ = []string{"HSET", key, "f", "v"}, model.THash
		case 2:
			cmd, typ = []string{"RPUSH", key, "e1", "e2"}, model.TList
		case 3:
			cmd, typ = []string{"SADD", key, "m1", "m2"}, model.TSet
		default:
			cmd, typ = []string{"ZADD", key, "1", "m1", "2", "m2"}, model.TZSet
		}
		if typ != not {
			return cmd
		}
	}
}

func countArg(t *rapid.T, n int, label string) string {
	return strconv.Itoa(rapid.SampledFrom([]int{-n - 1, -n, -2, -1, 0, 1, 2, n - 1, n, n + 1, 50}).Draw(t, label))
}

// HashCmd draws one hash-family command.
func HashCmd(t *rapid.T, m *model.Model, keys []string) []string {
	k := Key(t, keys, "key")
	e := m.Get(k)
	fields := hashFields(e)
	n := len(fields)
	switch rapid.IntRange(0, 33).Draw(t, "cmd") {
	case 0, 1, 2, 3, 4:
		name := "HSET"
		if rapid.IntRange(0, 3).Draw(t, "nx") == 0 {
			name = "HSETNX"
		}
		cmd := []string{name, k}
		np := rapid.IntRange(1, 3).Draw(t, "np")
		for i := 0; i < np; i++ {
			cmd = append(cmd, existingOr(t, fields, "f"), Value(t, "v"))
		}
		if rapid.IntRange(0, 12).Draw(t, "odd") == 0 {
			cmd = append(cmd, "dangling")
		}
		return cmd
	case 5, 6, 7:
		name := rapid.SampledFrom([]string{"HGET", "HMGET"}).Draw(t, "g")
		cmd := []string{name, k}
		nf := rapid.IntRange(1, 3).Draw(t, "nf")
		for i := 0; i < nf; i++ {
			cmd = append(cmd, existingOr(t, fields, "f"))
		}
		return cmd
	case 8, 9:
		return []string{"HGETALL", k}
	case 10:
		return []string{"HKEYS", k}
	case 11:
		return []string{"HVALS", k}
	case 12, 13:
		return []string{"HLEN", k}
	case 14, 15:
		return []string{"HEXISTS", k, existingOr(t, fields, "f")}
	case 16, 17:
		cmd := []string{"HSTRLEN", k}
		nf := rapid.IntRange(1, 2).Draw(t, "nf")
		for i := 0; i < nf; i++ {
			cmd = append(cmd, existingOr(t, fields, "f"))
		}
		return cmd
	case 18, 19, 20:
		cmd := []string{"HDEL", k}
		nf := rapid.IntRange(1, 3).Draw(t, "nf")
		for i := 0; i < nf; i++ {
			cmd = append(cmd, existingOr(t, fields, "f"))
		}
		return cmd
	case 21, 22, 23:
		return []string{"HINCRBY", k, existingOr(t, fields, "f"), counterArg(t)}
	case 24, 25:
		return []string{"HINCRBYFLOAT", k, existingOr(t, fields, "f"), rapid.SampledFrom([]string{"1", "0.5", "-2.25", "1e3", "x", "", "10"}).Draw(t, "fl")}
	case 26, 27, 28:
		switch rapid.IntRange(0, 3).Draw(t, "rf") {
		case 0:
			return []string{"HRANDFIELD", k}
		case 1:
			return []string{"HRANDFIELD", k, countArg(t, n, "cnt")}
		case 2:
			return []string{"HRANDFIELD", k, countArg(t, n, "cnt"), "WITHVALUES"}
		default:
			return []string{"HRANDFIELD", k, rapid.SampledFrom([]string{"x", "1.5", ""}).Draw(t, "badcnt"), "bogus"}
		}
	case 29:
		return OtherType(t, k, model.THash)
	case 30:
		return []string{"DEL", k}
	case 31:
		return []string{"TYPE", k}
	default:
		name := rapid.SampledFrom([]string{"HSET", "HGET", "HDEL", "HLEN", "HEXISTS", "HINCRBY", "HGETALL", "HKEYS", "HVALS", "HSTRLEN", "HRANDFIELD", "HMGET", "HSETNX", "HINCRBYFLOAT"}).Draw(t, "arity")
		cmd := []string{name}
		na := rapid.IntRange(0, 4).Draw(t, "nargs")
		for i := 0; i < na; i++ {
			cmd = append(cmd, Key(t, keys, "ak"))
		}
		return cmd
	}
}

// ListCmd draws one list-family command.
func ListCmd(t *rapid.T, m *model.Model, keys []string) []string {
	k := Key(t, keys, "key")
	e := m.Get(k)
	els := listElems(e)
	n := len(els)
	dir := func(l string) string { return rapid.SampledFrom([]string{"LEFT", "RIGHT", "left", "Right"}).Draw(t, l) }
	switch rapid.IntRange(0, 35).Draw(t, "cmd") {
	case 0, 1, 2, 3, 4, 5:
		name := rapid.SampledFrom([]string{"LPUSH", "RPUSH", "RPUSH", "LPUSHX", "RPUSHX"}).Draw(t, "push")
		cmd := []string{name, k}
		ne := rapid.IntRange(1, 3).Draw(t, "ne")
		for i := 0; i < ne; i++ {
			cmd = append(cmd, existingOr(t, els, "el"))
		}
		return cmd
	case 6, 7, 8, 9:
		name := rapid.SampledFrom([]string{"LPOP", "RPOP"}).Draw(t, "pop")
		if rapid.IntRange(0, 1).Draw(t, "hascount") == 0 {
			return []string{name, k}
		}
		return []string{name, k, strconv.Itoa(rapid.SampledFrom([]int{0, 1, 2, n - 1, n, n + 1, 50}).Draw(t, "cnt"))}
	case 10, 11:
		return []string{"LLEN", k}
	case 12, 13, 14, 15:
		return []string{"LRANGE", k, IntAround(t, n, "s"), IntAround(t, n, "e")}
	case 16, 17:
		return []string{"LINDEX", k, IntAround(t, n, "i")}
	case 18, 19, 20:
		return []string{"LSET", k, IntAround(t, n, "i"), Member(t, "v")}
	case 21, 22, 23:
		return []string{"LTRIM", k, IntAround(t, n, "s"), IntAround(t, n, "e")}
	case 24, 25, 26:
		return []string{"LREM", k, countArg(t, n, "cnt"), existingOr(t, els, "el")}
	case 27, 28, 29, 30:
		k2 := Key(t, keys, "k2")
		return []string{"LMOVE", k, k2, dir("from"), dir("to")}
	case 31:
		return []string{"LMOVE", k, Key(t, keys, "k2"), "UP", "LEFT"}
	case 32:
		return OtherType(t, k, model.TList)
	case 33:
		return []string{"DEL", k}
	case 34:
		return []string{"TYPE", k}
	default:
		name := rapid.SampledFrom([]string{"LPUSH", "RPUSH", "LPOP", "RPOP", "LLEN", "LRANGE", "LINDEX", "LSET", "LTRIM", "LREM", "LMOVE", "LPUSHX", "RPUSHX"}).Draw(t, "arity")
		cmd := []string{name}
		na := rapid.IntRange(0, 5).Draw(t, "nargs")
		for i := 0; i < na; i++ {
			cmd = append(cmd, Key(t, keys, "ak"))
		}
		return cmd
	}
}

// SetCmd draws one set-family command.
func SetCmd(t *rapid.T, m *model.Model, keys []string) []string {
	k := Key(t, keys, "key")
	e := m.Get(k)
	ms := setMembers(e)
	n := len(ms)
	operands := func(label string, lo, hi int) []string {
		cnt := rapid.IntRange(lo, hi).Draw(t, label+"_n")
		out := make([]string, cnt)
		for i := range out {
			if rapid.IntRange(0, 9).Draw(t, label+"_missing") == 0 {
				out[i] = "nokey"
			} else {
				out[i] = Key(t, keys, label)
			}
		}
		return out
	}
	switch rapid.IntRange(0, 37).Draw(t, "cmd") {
	case 0, 1, 2, 3, 4, 5:
		cmd := []string{"SADD", k}
		nm := rapid.IntRange(1, 4).Draw(t, "nm")
		for i := 0; i < nm; i++ {
			cmd = append(cmd, existingOr(t, ms, "m"))
		}
		return cmd
	case 6, 7, 8:
		cmd := []string{"SREM", k}
		nm := rapid.IntRange(1, 3).Draw(t, "nm")
		for i := 0; i < nm; i++ {
			cmd = append(cmd, existingOr(t, ms, "m"))
		}
		return cmd
	case 9:
		return []string{"SCARD", k}
	case 10, 11:
		return []string{"SISMEMBER", k, existingOr(t, ms, "m")}
	case 12:
		cmd := []string{"SMISMEMBER", k}
		nm := rapid.IntRange(1, 3).Draw(t, "nm")
		for i := 0; i < nm; i++ {
			cmd = append(cmd, existingOr(t, ms, "m"))
		}
		return cmd
	case 13, 14:
		return []string{"SMEMBERS", k}
	case 15, 16, 17, 18, 19:
		name := rapid.SampledFrom([]string{"SUNION", "SINTER", "SDIFF"}).Draw(t, "alg")
		return append([]string{name}, operands("op", 1, 4)...)
	case 20, 21:
		cmd := append([]string{"SINTERCARD"}, operands("op", 1, 3)...)
		if rapid.IntRange(0, 1).Draw(t, "lim") == 1 {
			cmd = append(cmd, "LIMIT", strconv.Itoa(rapid.SampledFrom([]int{0, 1, 2, n, 50}).Draw(t, "limit")))
		}
		return cmd
	case 22, 23, 24, 25, 26:
		name := rapid.SampledFrom([]string{"SUNIONSTORE", "SINTERSTORE", "SDIFFSTORE"}).Draw(t, "algs")
		return append([]string{name, Key(t, keys, "dst")}, operands("op", 1, 3)...)
	case 27, 28, 29:
		return []string{"SMOVE", k, Key(t, keys, "dst"), existingOr(t, ms, "m")}
	case 30, 31, 32:
		name := rapid.SampledFrom([]string{"SPOP", "SRANDMEMBER"}).Draw(t, "rnd")
		if rapid.IntRange(0, 2).Draw(t, "hascount") == 0 {
			return []string{name, k}
		}
		return []string{name, k, countArg(t, n, "cnt")}
	case 33:
		return OtherType(t, k, model.TSet)
	case 34:
		return []string{"DEL", k}
	case 35:
		return []string{"TYPE", k}
	default:
		name := rapid.SampledFrom([]string{"SADD", "SREM", "SCARD", "SISMEMBER", "SMISMEMBER", "SMEMBERS", "SUNION", "SINTER", "SDIFF", "SINTERCARD", "SUNIONSTORE", "SMOVE", "SPOP", "SRANDMEMBER", "SDIFFSTORE", "SINTERSTORE"}).Draw(t, "arity")
		cmd := []string{name}
		na := rapid.IntRange(0, 2).Draw(t, "nargs")
		for i := 0; i < na; i++ {
			cmd = append(cmd, Key(t, keys, "ak"))
		}
		if na == 2 && rapid.IntRange(0, 1).Draw(t, "badcount") == 0 {
			cmd[2] = "notanumber"
		}
		return cmd
	}
}

var Scores = []string{"0", "1", "2", "2", "-1", "1.5", "-2.5", "10", "inf", "-inf", "+inf", "1e2", "0.1", "3"}

func score(t *rapid.T, label string) string {
	if rapid.IntRange(0, 14).Draw(t, label+"_bad") == 0 {
		return rapid.SampledFrom([]string{"x", "", "1..2", "abc"}).Draw(t, label+"_badv")
	}
	return rapid.SampledFrom(Scores).Draw(t, label)
}

func bound(t *rapid.T, label string) string {
	return rapid.SampledFrom([]string{"-inf", "+inf", "0", "1", "2", "1.5", "-1", "10", "3", "(1", "x"}).Draw(t, label)
}

// ZSetCmd draws one sorted-set-family command.
func ZSetCmd(t *rapid.T, m *model.Model, keys []string) []string {
	k := Key(t, keys, "key")
	e := m.Get(k)
	ms := zMembers(e)
	n := len(ms)
	zm := func(label string) string {
		// members: plain names so that lexicographic ranges are meaningful
		if len(ms) > 0 && rapid.IntRange(0, 9).Draw(t, label+"_ex") < 6 {
			sort.Strings(ms)
			return rapid.SampledFrom(ms).Draw(t, label+"_pick")
		}
		return rapid.SampledFrom([]string{"a", "b", "c", "d", "ab", "abc", "m1", "m2", "", "x y", "B", "limit", "10"}).Draw(t, label)
	}
	operands := func(label string, lo, hi int) []string {
		cnt := rapid.IntRange(lo, hi).Draw(t, label+"_n")
		out := make([]string, cnt)
		for i := range out {
			if rapid.IntRange(0, 9).Draw(t, label+"_missing") == 0 {
				out[i] = "nokey"
			} else {
				out[i] = Key(t, keys, label)
			}
		}
		return out
	}
	algOpts := func(nkeys int, diff bool) []string {
		var o []string
		if !diff {
			if rapid.IntRange(0, 2).Draw(t, "w") == 0 {
				o = append(o, "WEIGHTS")
				nw := nkeys
				if rapid.IntRange(0, 9).Draw(t, "wbad") == 0 {
					nw = nkeys + 1
				}
				for i := 0; i < nw; i++ {
					o = append(o, rapid.SampledFrom([]string{"1", "2", "0", "-1", "0.5", "3"}).Draw(t, "wt"))
				}
			}
			if rapid.IntRange(0, 2).Draw(t, "ag") == 0 {
				o = append(o, "AGGREGATE", rapid.SampledFrom([]string{"SUM", "MIN", "MAX", "sum", "AVG"}).Draw(t, "agg"))
			}
		}
		return o
	}
	switch rapid.IntRange(0, 52).Draw(t, "cmd") {
	case 0, 1, 2, 3, 4, 5, 6:
		cmd := []string{"ZADD", k}
		nf := rapid.IntRange(0, 2).Draw(t, "nflags")
		for i := 0; i < nf; i++ {
			cmd = append(cmd, rapid.SampledFrom([]string{"NX", "XX", "GT", "LT", "CH", "INCR", "ch", "xx"}).Draw(t, "flag"))
		}
		np := rapid.IntRange(1, 3).Draw(t, "np")
		for i := 0; i < np; i++ {
			cmd = append(cmd, score(t, "sc"), zm("m"))
		}
		return cmd
	case 7, 8:
		return []string{"ZINCRBY", k, score(t, "sc"), zm("m")}
	case 9, 10:
		return []string{"ZSCORE", k, zm("m")}
	case 11:
		cmd := []string{"ZMSCORE", k}
		nm := rapid.IntRange(1, 3).Draw(t, "nm")
		for i := 0; i < nm; i++ {
			cmd = append(cmd, zm("m"))
		}
		return cmd
	case 12:
		return []string{"ZCARD", k}
	case 13, 14:
		return []string{"ZCOUNT", k, bound(t, "lo"), bound(t, "hi")}
	case 15, 16:
		return []string{"ZLEXCOUNT", k, zm("lo"), zm("hi")}
	case 17, 18, 19:
		name := rapid.SampledFrom([]string{"ZRANK", "ZREVRANK"}).Draw(t, "rk")
		if rapid.IntRange(0, 2).Draw(t, "ws") == 0 {
			return []string{name, k, zm("m"), rapid.SampledFrom([]string{"WITHSCORE", "WITHSCORES"}).Draw(t, "wsopt")}
		}
		return []string{name, k, zm("m")}
	case 20, 21:
		cmd := []string{"ZREM", k}
		nm := rapid.IntRange(1, 3).Draw(t, "nm")
		for i := 0; i < nm; i++ {
			cmd = append(cmd, zm("m"))
		}
		return cmd
	case 22, 23, 24:
		name := rapid.SampledFrom([]string{"ZPOPMIN", "ZPOPMAX"}).Draw(t, "pop")
		if rapid.IntRange(0, 1).Draw(t, "hascount") == 0 {
			return []string{name, k}
		}
		return []string{name, k, strconv.Itoa(rapid.SampledFrom([]int{0, 1, 2, n, n + 1, -1}).Draw(t, "cnt"))}
	case 25, 26:
		cmd := append([]string{"ZMPOP"}, operands("op", 1, 3)...)
		cmd = append(cmd, rapid.SampledFrom([]string{"MIN", "MAX", "min"}).Draw(t, "mm"))
		if rapid.IntRange(0, 1).Draw(t, "hascount") == 1 {
			cmd = append(cmd, "COUNT", strconv.Itoa(rapid.SampledFrom([]int{1, 2, n, n + 1, 0}).Draw(t, "cnt")))
		}
		return cmd
	case 27, 28:
		return []string{"ZREMRANGEBYSCORE", k, bound(t, "lo"), bound(t, "hi")}
	case 29:
		return []string{"ZREMRANGEBYLEX", k, zm("lo"), zm("hi")}
	case 30, 31:
		return []string{"ZREMRANGEBYRANK", k, IntAround(t, n, "s"), IntAround(t, n, "e")}
	case 32, 33, 34, 35, 36, 37, 38:
		store := rapid.IntRange(0, 3).Draw(t, "store") == 0
		var cmd []string
		if store {
			cmd = []string{"ZRANGESTORE", Key(t, keys, "dst"), k}
		} else {
			cmd = []string{"ZRANGE", k}
		}
		mode := rapid.IntRange(0, 3).Draw(t, "mode")
		if mode == 3 {
			cmd = append(cmd, zm("lo"), zm("hi"), "BYLEX")
		} else {
			cmd = append(cmd, bound(t, "lo"), bound(t, "hi"))
			if mode == 1 {
				cmd = append(cmd, "BYSCORE")
			}
		}
		if rapid.IntRange(0, 2).Draw(t, "rev") == 0 {
			cmd = append(cmd, "REV")
		}
		if rapid.IntRange(0, 2).Draw(t, "lim") == 0 {
			cmd = append(cmd, "LIMIT", strconv.Itoa(rapid.SampledFrom([]int{0, 1, 2, n, -1}).Draw(t, "off")), strconv.Itoa(rapid.SampledFrom([]int{-1, 0, 1, 2, n, 10}).Draw(t, "cnt")))
		}
		if !store && rapid.IntRange(0, 1).Draw(t, "ws") == 0 {
			cmd = append(cmd, "WITHSCORES")
		}
		return cmd
	case 39, 40:
		switch rapid.IntRange(0, 2).Draw(t, "rm") {
		case 0:
			return []string{"ZRANDMEMBER", k}
		case 1:
			return []string{"ZRANDMEMBER", k, countArg(t, n, "cnt")}
		default:
			return []string{"ZRANDMEMBER", k, countArg(t, n, "cnt"), "WITHSCORES"}
		}
	case 41, 42, 43, 44, 45:
		name := rapid.SampledFrom([]string{"ZUNION", "ZINTER", "ZDIFF"}).Draw(t, "alg")
		ops := operands("op", 1, 3)
		cmd := append([]string{name}, ops...)
		cmd = append(cmd, algOpts(len(ops), name == "ZDIFF")...)
		if rapid.IntRange(0, 1).Draw(t, "ws") == 0 {
			cmd = append(cmd, "WITHSCORES")
		}
		return cmd
	case 46, 47, 48:
		name := rapid.SampledFrom([]string{"ZUNIONSTORE", "ZINTERSTORE", "ZDIFFSTORE"}).Draw(t, "algs")
		ops := operands("op", 1, 3)
		cmd := append([]string{name, Key(t, keys, "dst")}, ops...)
		cmd = append(cmd, algOpts(len(ops), name == "ZDIFFSTORE")...)
		return cmd
	case 49:
		return OtherType(t, k, model.TZSet)
	case 50:
		return []string{"DEL", k}
	case 51:
		return []string{"TYPE", k}
	default:
		name := rapid.SampledFrom([]string{"ZADD", "ZCARD", "ZCOUNT", "ZDIFF", "ZINCRBY", "ZINTER", "ZMPOP", "ZMSCORE", "ZPOPMAX", "ZPOPMIN", "ZRANDMEMBER", "ZRANK", "ZREVRANK", "ZREM", "ZSCORE", "ZREMRANGEBYLEX", "ZREMRANGEBYRANK", "ZREMRANGEBYSCORE", "ZLEXCOUNT", "ZRANGE", "ZRANGESTORE", "ZUNION", "ZUNIONSTORE", "ZINTERSTORE", "ZDIFFSTORE"}).Draw(t, "arity")
		cmd := []string{name}
		na := rapid.IntRange(0, 4).Draw(t, "nargs")
		for i := 0; i < na; i++ {
			cmd = append(cmd, Key(t, keys, "ak"))
		}
		return cmd
	}
}
