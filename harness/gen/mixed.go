package gen

import (
	"strconv"
	"strings"

	"pgregory.net/rapid"

	"verifharness/model"
)

// AnyFamilyCmd draws a command from one of the five family grammars.
func AnyFamilyCmd(t *rapid.T, m *model.Model, keys []string) []string {
	switch rapid.IntRange(0, 5).Draw(t, "family") {
	case 0:
		return StringCmd(t, m, keys)
	case 1:
		return HashCmd(t, m, keys)
	case 2:
		return ListCmd(t, m, keys)
	case 3:
		return SetCmd(t, m, keys)
	default:
		return ZSetCmd(t, m, keys)
	}
}

// WriterCmd draws a command that (usually) stores data, for building datasets of all types.
func WriterCmd(t *rapid.T, m *model.Model, keys []string) []string {
	k := Key(t, keys, "wkey")
	v := func(l string) string { return rapid.SampledFrom([]string{"v", "w", "abc", "10", "3.5", "", "x y", "héllo", "a\r\nb", "px", "EX"}).Draw(t, l) }
	mem := func(l string) string { return rapid.SampledFrom([]string{"m1", "m2", "m3", "a", "b", "10", ""}).Draw(t, l) }
	switch rapid.IntRange(0, 15).Draw(t, "writer") {
	case 0, 1:
		return []string{"SET", k, v("v")}
	case 2:
		return []string{"SET", k, v("v"), "PX", strconv.Itoa(rapid.SampledFrom([]int{1500, 60000, 3600000}).Draw(t, "px"))}
	case 3, 4:
		return []string{"HSET", k, mem("f"), v("v"), mem("f2"), v("v2")}
	case 5, 6:
		return []string{"RPUSH", k, mem("e1"), mem("e2"), mem("e3")}
	case 7, 8:
		return []string{"SADD", k, mem("m1"), mem("m2"), mem("m3")}
	case 9, 10:
		return []string{"ZADD", k, rapid.SampledFrom(Scores).Draw(t, "s1"), mem("z1"), rapid.SampledFrom(Scores).Draw(t, "s2"), mem("z2")}
	case 11:
		return []string{"PEXPIRE", k, strconv.Itoa(rapid.SampledFrom([]int{1500, 60000, 3600000}).Draw(t, "pe"))}
	case 12:
		return []string{"INCRBY", k, "5"}
	case 13:
		return []string{"LPUSH", k, mem("e")}
	case 14:
		return []string{"DEL", k}
	default:
		return []string{"APPEND", k, v("v")}
	}
}

// NamedCmdRandomArgs builds an invocation of an arbitrary command name with type-directed random
// arguments (keys, members, integers, option words): the generator of last resort for commands the
// grammar tables do not know.
func NamedCmdRandomArgs(t *rapid.T, name string, keys []string) []string {
	cmd := []string{strings.ToUpper(name)}
	n := rapid.IntRange(0, 5).Draw(t, "nargs")
	for i := 0; i < n; i++ {
		switch rapid.IntRange(0, 5).Draw(t, "argkind") {
		case 0, 1, 2:
			cmd = append(cmd, Key(t, keys, "ak"))
		case 3:
			cmd = append(cmd, rapid.SampledFrom([]string{"0", "1", "-1", "2", "100", "-inf", "+inf", "x"}).Draw(t, "an"))
		case 4:
			cmd = append(cmd, rapid.SampledFrom(Members).Draw(t, "am"))
		default:
			cmd = append(cmd, rapid.SampledFrom([]string{"WITHSCORES", "LIMIT", "WEIGHTS", "BYLEX", "REV", "WITHVALUES", "COUNT", "MIN"}).Draw(t, "aopt"))
		}
	}
	return cmd
}
