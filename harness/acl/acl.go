// Package acl holds the declarative ACL decision procedure used as the oracle of C06/C11. It is written
// from the property statement and docs/docs/acl.md. Its input is the rule set of a user as the server
// itself reports it (ACL GETUSER), the categories of the command from the live table (ACL CAT), and the
// key and channel sets of the command from the harness's own grammar table below.
package acl

import (
	"path"
	"strings"

	"verifharness/resp"
)

// Rules is a user's rule set as reported by ACL GETUSER.
type Rules struct {
	Found    bool
	Enabled  bool
	NoPass   bool
	NoKeys   bool
	InclCats []string // "all" or category
	ExclCats []string
	InclCmds []string // "all", "cmd" or "cmd|sub"
	ExclCmds []string
	ReadKeys []string // globs
	WritKeys []string
	InclCh   []string
	ExclCh   []string
}

// ParseGetUser parses the reply of ACL GETUSER.
func ParseGetUser(v resp.Value) Rules {
	r := Rules{}
	l, ok := v.List()
	if !ok || v.IsErr() {
		return r
	}
	r.Found = true
	for i := 0; i+1 < len(l); i += 2 {
		name, _ := l[i].Text()
		vals, _ := l[i+1].Strings()
		switch name {
		case "flags":
			for _, f := range vals {
				switch f {
				case "on":
					r.Enabled = true
				case "nopass":
					r.NoPass = true
				case "nokeys":
					r.NoKeys = true
				}
			}
		case "categories":
			for _, c := range vals {
				if strings.HasPrefix(c, "+@") {
					r.InclCats = append(r.InclCats, c[2:])
				} else if strings.HasPrefix(c, "-@") {
					r.ExclCats = append(r.ExclCats, c[2:])
				}
			}
		case "commands":
			for _, c := range vals {
				if strings.HasPrefix(c, "+") {
					r.InclCmds = append(r.InclCmds, c[1:])
				} else if strings.HasPrefix(c, "-") {
					r.ExclCmds = append(r.ExclCmds, c[1:])
				}
			}
		case "keys":
			for _, k := range vals {
				switch {
				case strings.HasPrefix(k, "%RW~"):
					r.ReadKeys = append(r.ReadKeys, k[4:])
					r.WritKeys = append(r.WritKeys, k[4:])
				case strings.HasPrefix(k, "%R~"):
					r.ReadKeys = append(r.ReadKeys, k[3:])
				case strings.HasPrefix(k, "%W~"):
					r.WritKeys = append(r.WritKeys, k[3:])
				}
			}
		case "channels":
			for _, c := range vals {
				if strings.HasPrefix(c, "+&") {
					r.InclCh = append(r.InclCh, c[2:])
				} else if strings.HasPrefix(c, "-&") {
					r.ExclCh = append(r.ExclCh, c[2:])
				}
			}
		}
	}
	return r
}

// Match is glob matching for the pattern subset the generators use (*, ?, [set], literals).
func Match(pattern, s string) bool {
	ok, err := path.Match(pattern, s)
	return err == nil && ok
}

func anyMatch(globs []string, s string) bool {
	for _, g := range globs {
		if g == "*" || Match(g, s) {
			return true
		}
	}
	return false
}

func has(list []string, x ...string) bool {
	for _, l := range list {
		for _, y := range x {
			if l == y {
				return true
			}
		}
	}
	return false
}

// Access describes what a command does with keys and channels.
type Access struct {
	Known    bool
	Read     []string // keys whose content the command returns or depends on
	Write    []string // keys the command modifies
	Channels []string
	PureRead bool // the command writes nothing
}

// Verdict: Allow / Deny / Unknown (not asserted).
type Verdict int

const (
	Unknown Verdict = iota
	Allow
	Deny
)

func (v Verdict) String() string { return [...]string{"unknown", "allow", "deny"}[v] }

// Exempt reports the handshake commands.
func Exempt(name string) bool {
	switch strings.ToLower(name) {
	case "auth", "hello", "ping", "echo":
		return true
	}
	return false
}

// Decide evaluates the property's rule. comm is "cmd" or "cmd|sub"; cats are the categories of the
// command (and of its parent for a sub-command); isPubSub tells whether it carries the pubsub category.
func Decide(authenticated bool, r Rules, comm string, cats []string, acc Access) (Verdict, string) {
	name := strings.SplitN(comm, "|", 2)[0]
	if Exempt(name) {
		return Unknown, "exempt"
	}
	if !authenticated {
		return Deny, "not authenticated"
	}
	if !r.Found {
		return Deny, "user does not exist"
	}
	if !r.Enabled {
		return Deny, "user is disabled"
	}
	for _, c := range cats {
		if !has(r.InclCats, "all", c) {
			return Deny, "category @" + c + " is not included"
		}
		if has(r.ExclCats, "all", c) {
			return Deny, "category @" + c + " is excluded"
		}
	}
	parentOnly := strings.Contains(comm, "|") && has(r.InclCmds, name) && !has(r.InclCmds, "all", comm)
	if parentOnly {
		// "+cmd" for a sub-command: the docs suggest it covers the sub-commands, the implementation wants
		// "+cmd|sub"; not asserted.
		return Unknown, "parent command rule for a sub-command"
	}
	if !has(r.InclCmds, "all", comm) {
		return Deny, "command " + comm + " is not included"
	}
	if has(r.ExclCmds, "all", comm) || (strings.Contains(comm, "|") && has(r.ExclCmds, name)) {
		if has(r.ExclCmds, "all", comm) {
			return Deny, "command " + comm + " is excluded"
		}
		return Unknown, "parent command excluded for a sub-command"
	}
	if !acc.Known {
		return Unknown, "key set of the command not in the harness's table"
	}
	for _, ch := range acc.Channels {
		if !anyMatch(r.InclCh, ch) {
			return Deny, "channel " + ch + " is not allowed"
		}
		if anyMatch(r.ExclCh, ch) {
			return Deny, "channel " + ch + " is excluded"
		}
	}
	if len(acc.Read)+len(acc.Write) > 0 {
		if r.NoKeys {
			return Deny, "nokeys"
		}
		// unambiguous denials: a written key without write permission; a key of a pure reader without
		// read permission
		for _, k := range acc.Write {
			if !anyMatch(r.WritKeys, k) {
				return Deny, "write key " + k + " matches no write pattern"
			}
		}
		if acc.PureRead {
			for _, k := range acc.Read {
				if !anyMatch(r.ReadKeys, k) {
					return Deny, "read key " + k + " matches no read pattern"
				}
			}
		}
		// unambiguous permission: every key is readable and writable as far as the command touches it;
		// for read-modify-write commands both are required before the oracle says "allow"
		for _, k := range append(append([]string{}, acc.Read...), acc.Write...) {
			rOK, wOK := anyMatch(r.ReadKeys, k), anyMatch(r.WritKeys, k)
			if acc.PureRead {
				if !rOK {
					return Deny, "read key " + k
				}
				continue
			}
			if !(rOK && wOK) {
				return Unknown, "read-modify-write on a key with only one of the two permissions"
			}
		}
	}
	return Allow, ""
}

// KeysOf is the harness's own table of which arguments are keys / channels.
func KeysOf(cmd []string) Access {
	if len(cmd) == 0 {
		return Access{}
	}
	n := strings.ToUpper(cmd[0])
	a := cmd[1:]
	arg := func(i int) []string {
		if i < len(a) {
			return []string{a[i]}
		}
		return nil
	}
	until := func(from int, stops ...string) []string {
		var out []string
		for i := from; i < len(a); i++ {
			u := strings.ToUpper(a[i])
			for _, s := range stops {
				if u == s {
					return out
				}
			}
			out = append(out, a[i])
		}
		return out
	}
	switch n {
	case "GET", "STRLEN", "GETRANGE", "SUBSTR", "TTL", "PTTL", "EXPIRETIME", "PEXPIRETIME", "TYPE", "OBJECTFREQ", "OBJECTIDLETIME",
		"HGET", "HMGET", "HGETALL", "HKEYS", "HVALS", "HLEN", "HEXISTS", "HSTRLEN", "HRANDFIELD",
		"LLEN", "LRANGE", "LINDEX", "SCARD", "SISMEMBER", "SMISMEMBER", "SMEMBERS", "SRANDMEMBER",
		"ZCARD", "ZCOUNT", "ZSCORE", "ZMSCORE", "ZRANK", "ZREVRANK", "ZLEXCOUNT", "ZRANGE", "ZRANDMEMBER":
		return Access{Known: len(a) >= 1, Read: arg(0), PureRead: true}
	case "MGET", "TOUCH", "SUNION", "SINTER", "SDIFF":
		return Access{Known: len(a) >= 1, Read: append([]string{}, a...), PureRead: true}
	case "SINTERCARD":
		return Access{Known: len(a) >= 1, Read: until(0, "LIMIT"), PureRead: true}
	case "ZUNION", "ZINTER", "ZDIFF":
		return Access{Known: len(a) >= 1, Read: until(0, "WEIGHTS", "AGGREGATE", "WITHSCORES"), PureRead: true}
	case "SET", "INCR", "DECR", "INCRBY", "DECRBY", "INCRBYFLOAT", "APPEND", "SETRANGE", "EXPIRE", "PEXPIRE", "EXPIREAT", "PEXPIREAT", "PERSIST",
		"HSET", "HSETNX", "HDEL", "HINCRBY", "HINCRBYFLOAT", "LPUSH", "LPUSHX", "RPUSH", "RPUSHX", "LPOP", "RPOP", "LSET", "LTRIM", "LREM",
		"SADD", "SREM", "SPOP", "ZADD", "ZINCRBY", "ZREM", "ZPOPMIN", "ZPOPMAX", "ZREMRANGEBYSCORE", "ZREMRANGEBYLEX", "ZREMRANGEBYRANK", "GETDEL", "GETEX":
		return Access{Known: len(a) >= 1, Read: arg(0), Write: arg(0)}
	case "MSET":
		var w []string
		for i := 0; i < len(a); i += 2 {
			w = append(w, a[i])
		}
		return Access{Known: len(a) >= 2 && len(a)%2 == 0, Write: w}
	case "DEL":
		return Access{Known: len(a) >= 1, Write: append([]string{}, a...)}
	case "RENAME", "LMOVE", "SMOVE":
		if len(a) < 2 {
			return Access{}
		}
		return Access{Known: true, Read: []string{a[0]}, Write: []string{a[0], a[1]}}
	case "SUNIONSTORE", "SINTERSTORE", "SDIFFSTORE":
		if len(a) < 2 {
			return Access{}
		}
		return Access{Known: true, Read: append([]string{}, a[1:]...), Write: []string{a[0]}}
	case "ZUNIONSTORE", "ZINTERSTORE", "ZDIFFSTORE":
		if len(a) < 2 {
			return Access{}
		}
		return Access{Known: true, Read: until(1, "WEIGHTS", "AGGREGATE", "WITHSCORES"), Write: []string{a[0]}}
	case "ZRANGESTORE":
		if len(a) < 2 {
			return Access{}
		}
		return Access{Known: true, Read: []string{a[1]}, Write: []string{a[0]}}
	case "ZMPOP":
		ks := until(0, "MIN", "MAX", "COUNT")
		return Access{Known: len(ks) >= 1, Read: ks, Write: ks}
	case "PUBLISH":
		return Access{Known: len(a) >= 1, Channels: arg(0)}
	case "SUBSCRIBE", "PSUBSCRIBE":
		return Access{Known: len(a) >= 1, Channels: append([]string{}, a...)}
	case "FLUSHDB", "FLUSHALL", "RANDOMKEY", "SAVE", "LASTSAVE", "REWRITEAOF", "SELECT", "SWAPDB", "COMMANDS":
		return Access{Known: true}
	case "ACL", "COMMAND", "PUBSUB", "MODULE":
		return Access{Known: true}
	}
	return Access{}
}
