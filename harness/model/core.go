// Package model is the sequential reference model of the SugarDB keyspace. It is written from the
// property statements and SugarDB's documentation (see /verif/SPEC.md), not from the handlers.
//
// The interface is Step(cmd, reply): the model validates the reply the server gave against its own
// pre-state (accepting every reply the specification allows), applies the command's effect to itself,
// and reports a *Mismatch if the reply contradicts the specification. State is compared separately
// (see digest.go), after every step.
package model

import (
	"fmt"
	"math"
	"sort"
	"strconv"
	"strings"

	"verifharness/resp"
)

// Type names used by the model (the server's TYPE reply integer/float/string all map to TString).
const (
	TNone   = "none"
	TString = "string"
	THash   = "hash"
	TList   = "list"
	TSet    = "set"
	TZSet   = "zset"
)

// Entry is one stored value.
type Entry struct {
	Type     string
	S        string
	H        map[string]string
	L        []string
	Set      map[string]struct{}
	Z        map[string]float64
	Deadline int64 // unix milliseconds; 0 = no deadline
	// DeadlineAlt, when non-zero, is a second deadline the specification allows for this entry (the result of
	// a ...STORE command written over a live key that had a deadline: no source says whether the replaced key's
	// deadline goes away with it or stays with the name). The engine resolves it by adopting the observed one.
	DeadlineAlt int64
}

func (e *Entry) Clone() *Entry {
	if e == nil {
		return nil
	}
	c := &Entry{Type: e.Type, S: e.S, Deadline: e.Deadline}
	if e.H != nil {
		c.H = make(map[string]string, len(e.H))
		for k, v := range e.H {
			c.H[k] = v
		}
	}
	if e.L != nil {
		c.L = append([]string(nil), e.L...)
	}
	if e.Set != nil {
		c.Set = make(map[string]struct{}, len(e.Set))
		for k := range e.Set {
			c.Set[k] = struct{}{}
		}
	}
	if e.Z != nil {
		c.Z = make(map[string]float64, len(e.Z))
		for k, v := range e.Z {
			c.Z[k] = v
		}
	}
	return c
}

// Empty tells whether a collection entry has no elements.
func (e *Entry) Empty() bool {
	switch e.Type {
	case THash:
		return len(e.H) == 0
	case TList:
		return len(e.L) == 0
	case TSet:
		return len(e.Set) == 0
	case TZSet:
		return len(e.Z) == 0
	}
	return false
}

// DB is one logical database.
type DB map[string]*Entry

// Model is the whole keyspace plus the selected database of the (single) client.
type Model struct {
	DBs map[int]DB
	Cur int
	// NowMs is the virtual clock, in unix milliseconds.
	NowMs func() int64
	// Opt: behaviour switches that the specification leaves open and that are fixed by observation
	// of the first occurrence (kept per model instance so that a server must at least be consistent).
	LPushOrder int // 0 unknown, 1 = each element pushed to the head in turn (Redis), 2 = block order kept
	// Touched lists the keys (of the current db) written by the last Step.
	Touched []string
	// Soft is set by a Step whose effect the specification does not fully determine: the caller
	// should adopt the server's state for Touched keys after validating it against SoftCheck.
	Soft      bool
	softLPush *softLPush
	// SoftCheck, when set by a Soft step, validates the adopted state of a touched key.
	SoftCheck func(key string, got KeyState) (string, bool)
}

// New returns an empty model.
func New(now func() int64) *Model {
	return &Model{DBs: map[int]DB{}, NowMs: now}
}

// Clone deep-copies the model.
func (m *Model) Clone() *Model {
	c := &Model{DBs: map[int]DB{}, Cur: m.Cur, NowMs: m.NowMs, LPushOrder: m.LPushOrder}
	for i, db := range m.DBs {
		nd := DB{}
		for k, e := range db {
			nd[k] = e.Clone()
		}
		c.DBs[i] = nd
	}
	return c
}

func (m *Model) db() DB {
	d, ok := m.DBs[m.Cur]
	if !ok {
		d = DB{}
		m.DBs[m.Cur] = d
	}
	return d
}

// DBOf returns database i (created on demand).
func (m *Model) DBOf(i int) DB {
	d, ok := m.DBs[i]
	if !ok {
		d = DB{}
		m.DBs[i] = d
	}
	return d
}

func (m *Model) expired(e *Entry) bool {
	return e != nil && e.Deadline != 0 && e.Deadline < m.NowMs()
}

// AtDeadline is true when the key's deadline is exactly now (both outcomes are acceptable there).
func (m *Model) AtDeadline(e *Entry) bool {
	return e != nil && e.Deadline != 0 && e.Deadline == m.NowMs()
}

// Get returns the live entry for key in the current database (nil if absent or past its deadline;
// an expired entry is purged). Empty collections are treated as present-but-empty; callers decide.
func (m *Model) Get(key string) *Entry {
	d := m.db()
	e := d[key]
	if e == nil {
		return nil
	}
	if m.expired(e) {
		delete(d, key)
		return nil
	}
	return e
}

// Peek is Get for an arbitrary database without changing Cur.
func (m *Model) Peek(db int, key string) *Entry {
	d := m.DBOf(db)
	e := d[key]
	if e == nil {
		return nil
	}
	if m.expired(e) {
		delete(d, key)
		return nil
	}
	return e
}

// PurgeExpired removes every key past its deadline in every database.
func (m *Model) PurgeExpired() {
	for _, d := range m.DBs {
		for k, e := range d {
			if m.expired(e) {
				delete(d, k)
			}
		}
	}
}

// Keys returns the live keys of database i, sorted.
func (m *Model) Keys(i int) []string {
	var ks []string
	for k, e := range m.DBOf(i) {
		if !m.expired(e) {
			ks = append(ks, k)
		}
	}
	sort.Strings(ks)
	return ks
}

func (m *Model) set(key string, e *Entry) {
	m.db()[key] = e
	m.touch(key)
}

// setStore stores the result of a ...STORE command under key (see Entry.DeadlineAlt).
func (m *Model) setStore(key string, e *Entry) {
	if old := m.Get(key); old != nil && old.Deadline > 0 {
		e.DeadlineAlt = old.Deadline
	}
	m.set(key, e)
}

func (m *Model) del(key string) {
	delete(m.db(), key)
	m.touch(key)
}

func (m *Model) touch(key string) {
	for _, k := range m.Touched {
		if k == key {
			return
		}
	}
	m.Touched = append(m.Touched, key)
}

// Mismatch is a reply that contradicts the specification.
type Mismatch struct {
	Cmd  []string
	Want string
	Got  string
	Note string
}

func (mm *Mismatch) Error() string {
	return fmt.Sprintf("reply mismatch for %q: want %s, got %s%s", mm.Cmd, mm.Want, mm.Got, ifs(mm.Note != "", " ("+mm.Note+")"))
}

func ifs(c bool, s string) string {
	if c {
		return s
	}
	return ""
}

// ---- reply expectation helpers ----

type chk struct {
	cmd []string
	rep resp.Value
}

func (c chk) fail(want string, note ...string) error {
	n := ""
	if len(note) > 0 {
		n = note[0]
	}
	return &Mismatch{Cmd: c.cmd, Want: want, Got: c.rep.Canon(), Note: n}
}

func (c chk) err() error {
	if c.rep.IsErr() {
		return nil
	}
	return c.fail("an error reply")
}

func (c chk) ok() error {
	if c.rep.IsErr() || c.rep.IsNil() {
		return c.fail("OK")
	}
	if s, ok := c.rep.Text(); ok && strings.EqualFold(s, "OK") {
		return nil
	}
	return c.fail("OK")
}

func (c chk) nilv() error {
	if c.rep.IsNil() {
		return nil
	}
	return c.fail("nil")
}

func (c chk) nilOrErr() error {
	if c.rep.IsNil() || c.rep.IsErr() {
		return nil
	}
	return c.fail("nil or an error")
}

func (c chk) integer(n int64) error {
	if c.rep.IsErr() {
		return c.fail(fmt.Sprintf("integer %d", n))
	}
	if got, ok := c.rep.AsInt(); ok && got == n {
		return nil
	}
	return c.fail(fmt.Sprintf("integer %d", n))
}

// text: scalar reply whose bytes equal s.
func (c chk) text(s string) error {
	if c.rep.IsErr() || c.rep.IsNil() {
		return c.fail(strconv.Quote(s))
	}
	if got, ok := c.rep.Text(); ok && got == s {
		return nil
	}
	return c.fail(strconv.Quote(s))
}

// number: scalar reply numerically equal to f (relative tolerance 1e-12).
func (c chk) number(f float64) error {
	if c.rep.IsErr() || c.rep.IsNil() {
		return c.fail(fmt.Sprintf("number %v", f))
	}
	got, ok := c.rep.AsFloat()
	if ok && FloatEq(got, f) {
		return nil
	}
	return c.fail(fmt.Sprintf("number %v", f))
}

// FloatEq compares doubles with relative tolerance 1e-12 (and treats equal infinities as equal).
func FloatEq(a, b float64) bool {
	if a == b {
		return true
	}
	if math.IsInf(a, 0) || math.IsInf(b, 0) || math.IsNaN(a) || math.IsNaN(b) {
		// (an infinity is only equal to itself: the relative tolerance below would accept anything next to it)
		return false
	}
	d := a - b
	if d < 0 {
		d = -d
	}
	m := a
	if m < 0 {
		m = -m
	}
	if b > m {
		m = b
	} else if -b > m {
		m = -b
	}
	return d <= 1e-12*m
}

// list: array reply equal to want in order ("\x00<nil>" marks nil elements).
func (c chk) list(want []string) error {
	got, ok := c.rep.Strings()
	if c.rep.IsErr() || !ok {
		return c.fail(fmt.Sprintf("array %q", want))
	}
	if len(got) != len(want) {
		return c.fail(fmt.Sprintf("array %q", want))
	}
	for i := range got {
		if got[i] != want[i] {
			return c.fail(fmt.Sprintf("array %q", want))
		}
	}
	return nil
}

// multiset: array reply equal to want as a multiset.
func (c chk) multiset(want []string) error {
	got, ok := c.rep.Strings()
	if c.rep.IsErr() || !ok {
		return c.fail(fmt.Sprintf("multiset %q", resp.SortedStrings(want)))
	}
	a, b := resp.SortedStrings(got), resp.SortedStrings(want)
	if len(a) != len(b) {
		return c.fail(fmt.Sprintf("multiset %q", b))
	}
	for i := range a {
		if a[i] != b[i] {
			return c.fail(fmt.Sprintf("multiset %q", b))
		}
	}
	return nil
}

// emptyList: empty array or nil.
func (c chk) emptyOrNil() error {
	if c.rep.IsNil() {
		return nil
	}
	if l, ok := c.rep.List(); ok && len(l) == 0 {
		return nil
	}
	return c.fail("empty array or nil")
}

// ---- argument helpers ----

func parseInt(s string) (int64, bool) {
	i, err := strconv.ParseInt(s, 10, 64)
	return i, err == nil
}

// CanonInt: s is the canonical decimal of an int64.
func CanonInt(s string) (int64, bool) {
	i, err := strconv.ParseInt(s, 10, 64)
	if err != nil || strconv.FormatInt(i, 10) != s {
		return 0, false
	}
	return i, true
}

// NumericLooking: s parses as a number under Go's ParseFloat/ParseInt (what AdaptType re-types) but
// need not be canonical.
func NumericLooking(s string) bool {
	if _, err := strconv.ParseInt(s, 10, 64); err == nil {
		return true
	}
	_, err := strconv.ParseFloat(s, 64)
	return err == nil
}

// CanonFloat: s is a finite decimal with a fractional part that Go prints back identically with %v.
func CanonFloat(s string) (float64, bool) {
	f, err := strconv.ParseFloat(s, 64)
	if err != nil {
		return 0, false
	}
	if fmt.Sprintf("%v", f) != s {
		return 0, false
	}
	return f, true
}

func up(s string) string { return strings.ToUpper(s) }
