package model

import (
	"math"
	"sort"
	"strconv"
	"strings"

	"verifharness/resp"
)

func (m *Model) zsetAt(key string) (e *Entry, wrong bool) {
	e = m.Get(key)
	if e != nil && e.Type != TZSet {
		return e, true
	}
	return e, false
}

// ParseScore parses a score or score bound (inf spellings included). NaN is rejected.
func ParseScore(s string) (float64, bool) {
	switch strings.ToLower(s) {
	case "inf", "+inf", "infinity", "+infinity":
		return math.Inf(1), true
	case "-inf", "-infinity":
		return math.Inf(-1), true
	}
	f, err := strconv.ParseFloat(s, 64)
	if err != nil || math.IsNaN(f) {
		return 0, false
	}
	return f, true
}

// Sorted returns the members ordered by (score, member bytes) ascending.
func Sorted(z map[string]float64) []ZPair {
	out := make([]ZPair, 0, len(z))
	for k, v := range z {
		out = append(out, ZPair{k, v})
	}
	sort.Slice(out, func(i, j int) bool {
		if out[i].S != out[j].S {
			return out[i].S < out[j].S
		}
		return out[i].M < out[j].M
	})
	return out
}

func newZ() *Entry { return &Entry{Type: TZSet, Z: map[string]float64{}} }

// flatScalars flattens nested arrays into the list of scalar texts (nil → NilMarker).
func flatScalars(v resp.Value, out *[]string) bool {
	if l, ok := v.List(); ok {
		for _, e := range l {
			if !flatScalars(e, out) {
				return false
			}
		}
		return true
	}
	if v.IsNil() {
		*out = append(*out, resp.NilMarker)
		return true
	}
	if v.IsErr() {
		return false
	}
	s, ok := v.Text()
	if !ok {
		return false
	}
	*out = append(*out, s)
	return true
}

// members reads a reply that lists members (flat, or nested singletons).
func (c chk) members() ([]string, bool) {
	if c.rep.IsErr() {
		return nil, false
	}
	if c.rep.IsNil() {
		return nil, true
	}
	if _, ok := c.rep.List(); !ok {
		return nil, false
	}
	var out []string
	if !flatScalars(c.rep, &out) {
		return nil, false
	}
	return out, true
}

// pairs reads a reply that lists member/score pairs (flat or nested).
func (c chk) pairs() ([]ZPair, bool) {
	flat, ok := c.members()
	if !ok || len(flat)%2 != 0 {
		return nil, false
	}
	out := make([]ZPair, 0, len(flat)/2)
	for i := 0; i < len(flat); i += 2 {
		f, ok := ParseScore(flat[i+1])
		if !ok {
			return nil, false
		}
		out = append(out, ZPair{flat[i], f})
	}
	return out, true
}

func pairsEq(a, b []ZPair) bool {
	if len(a) != len(b) {
		return false
	}
	for i := range a {
		if a[i].M != b[i].M || !FloatEq(a[i].S, b[i].S) {
			return false
		}
	}
	return true
}

func pairsStr(p []ZPair) string {
	var b strings.Builder
	b.WriteString("[")
	for i, x := range p {
		if i > 0 {
			b.WriteString(" ")
		}
		b.WriteString(strconv.Quote(x.M) + ":" + strconv.FormatFloat(x.S, 'g', -1, 64))
	}
	b.WriteString("]")
	return b.String()
}

// seqOneOf checks that the reply (members or pairs) equals one of the candidate sequences.
func (c chk) seqOneOf(withScores bool, cands ...[]ZPair) error {
	if withScores {
		got, ok := c.pairs()
		if ok {
			for _, w := range cands {
				if pairsEq(got, w) {
					return nil
				}
			}
		}
		return c.fail("pairs " + pairsStr(cands[0]))
	}
	got, ok := c.members()
	if ok {
	next:
		for _, w := range cands {
			if len(w) != len(got) {
				continue
			}
			for i := range w {
				if w[i].M != got[i] {
					continue next
				}
			}
			return nil
		}
	}
	return c.fail("members " + pairsStr(cands[0]))
}

// pairMultiset checks that the reply is the given set of pairs/members in any order.
func (c chk) pairMultiset(withScores bool, want []ZPair) error {
	if withScores {
		got, ok := c.pairs()
		if !ok || len(got) != len(want) {
			return c.fail("pairs (any order) " + pairsStr(want))
		}
		w := map[string]float64{}
		for _, p := range want {
			w[p.M] = p.S
		}
		seen := map[string]bool{}
		for _, p := range got {
			s, ok := w[p.M]
			if !ok || seen[p.M] || !FloatEq(s, p.S) {
				return c.fail("pairs (any order) " + pairsStr(want))
			}
			seen[p.M] = true
		}
		return nil
	}
	var ms []string
	for _, p := range want {
		ms = append(ms, p.M)
	}
	got, ok := c.members()
	if !ok {
		return c.fail("members (any order) " + pairsStr(want))
	}
	a, b := resp.SortedStrings(got), resp.SortedStrings(ms)
	if len(a) != len(b) {
		return c.fail("members (any order) " + pairsStr(want))
	}
	for i := range a {
		if a[i] != b[i] {
			return c.fail("members (any order) " + pairsStr(want))
		}
	}
	return nil
}

func (m *Model) stepZSet(c chk, name string, a []string) (error, bool) {
	switch name {
	case "ZADD":
		return m.cmdZAdd(c, a), true
	case "ZINCRBY":
		if len(a) != 3 {
			return c.err(), true
		}
		x, ok := ParseScore(a[1])
		if !ok {
			return c.err(), true
		}
		e, wrong := m.zsetAt(a[0])
		if wrong {
			return c.err(), true
		}
		ne := newZ()
		if e != nil {
			ne = e
		}
		if old, ok := ne.Z[a[2]]; ok && math.IsInf(old, 0) && c.rep.IsErr() {
			return nil, true // "cannot increment -inf or +inf": refusing is as good as inf+x = inf
		}
		nv := ne.Z[a[2]] + x
		if math.IsNaN(nv) {
			m.Soft = true
			m.touch(a[0])
			return nil, true
		}
		ne.Z[a[2]] = nv
		m.set(a[0], ne)
		return c.number(nv), true
	case "ZSCORE":
		if len(a) != 2 {
			return c.err(), true
		}
		e, wrong := m.zsetAt(a[0])
		if wrong {
			return c.err(), true
		}
		if e == nil {
			return c.nilv(), true
		}
		s, ok := e.Z[a[1]]
		if !ok {
			return c.nilv(), true
		}
		return c.number(s), true
	case "ZMSCORE":
		if len(a) < 2 {
			return c.err(), true
		}
		e, wrong := m.zsetAt(a[0])
		if wrong {
			return c.err(), true
		}
		if e == nil {
			if c.rep.IsNil() {
				return nil, true
			}
			if l, ok := c.rep.List(); ok && len(l) == 0 {
				return nil, true
			}
		}
		l, ok := c.rep.List()
		if !ok || c.rep.IsErr() || len(l) != len(a)-1 {
			return c.fail("an array with one score or nil per member"), true
		}
		for i, mb := range a[1:] {
			var s float64
			present := false
			if e != nil {
				s, present = e.Z[mb]
			}
			if !present {
				if !l[i].IsNil() {
					return c.fail("nil for the missing member " + strconv.Quote(mb)), true
				}
				continue
			}
			t, _ := l[i].Text()
			g, ok := ParseScore(t)
			if l[i].IsNil() || !ok || !FloatEq(g, s) {
				return c.fail("score " + strconv.FormatFloat(s, 'g', -1, 64) + " for " + strconv.Quote(mb)), true
			}
		}
		return nil, true
	case "ZCARD":
		if len(a) != 1 {
			return c.err(), true
		}
		e, wrong := m.zsetAt(a[0])
		if wrong {
			return c.err(), true
		}
		if e == nil {
			return c.integer(0), true
		}
		return c.integer(int64(len(e.Z))), true
	case "ZCOUNT":
		if len(a) != 3 {
			return c.err(), true
		}
		if strings.HasPrefix(a[1], "(") || strings.HasPrefix(a[2], "(") {
			return nil, true // exclusive-bound syntax: only if the server accepts it; not asserted
		}
		lo, ok1 := ParseScore(a[1])
		hi, ok2 := ParseScore(a[2])
		if !ok1 || !ok2 {
			return c.err(), true
		}
		e, wrong := m.zsetAt(a[0])
		if wrong {
			return c.err(), true
		}
		n := int64(0)
		if e != nil {
			for _, s := range e.Z {
				if s >= lo && s <= hi {
					n++
				}
			}
		}
		return c.integer(n), true
	case "ZLEXCOUNT":
		if len(a) != 3 {
			return c.err(), true
		}
		e, wrong := m.zsetAt(a[0])
		if wrong {
			return c.err(), true
		}
		if e == nil {
			return c.integer(0), true
		}
		if !plainLex(a[1]) || !plainLex(a[2]) {
			return nil, true
		}
		if !sameScores(e.Z) {
			return c.integer(0), true
		}
		n := int64(0)
		for mb := range e.Z {
			if mb >= a[1] && mb <= a[2] {
				n++
			}
		}
		return c.integer(n), true
	case "ZRANK", "ZREVRANK":
		if len(a) < 2 || len(a) > 3 {
			return c.err(), true
		}
		ws := false
		if len(a) == 3 {
			if up(a[2]) != "WITHSCORE" && up(a[2]) != "WITHSCORES" {
				return nil, true // an unknown option: ignored or refused, not asserted (read-only either way)
			}
			ws = true
		}
		e, wrong := m.zsetAt(a[0])
		if wrong {
			return c.err(), true
		}
		if e == nil {
			return c.nilv(), true
		}
		sc, ok := e.Z[a[1]]
		if !ok {
			return c.nilv(), true
		}
		srt := Sorted(e.Z)
		rank := 0
		for i, p := range srt {
			if p.M == a[1] {
				rank = i
			}
		}
		if name == "ZREVRANK" {
			rank = len(srt) - 1 - rank
		}
		if !ws {
			if l, ok := c.rep.List(); ok && len(l) == 1 {
				if g, ok := l[0].AsInt(); ok && g == int64(rank) {
					return nil, true
				}
			}
			return c.integer(int64(rank)), true
		}
		if up(a[2]) == "WITHSCORE" {
			// the docs spell the option WITHSCORE, the tests WITHSCORES: with the documented spelling a
			// rank-only reply is accepted as well
			if l, ok := c.rep.List(); ok && len(l) == 1 {
				if g, ok := l[0].AsInt(); ok && g == int64(rank) {
					return nil, true
				}
			}
		}
		var flat []string
		if c.rep.IsErr() || !flatScalars(c.rep, &flat) || len(flat) != 2 {
			return c.fail("[rank score]"), true
		}
		g, ok := ParseScore(flat[1])
		if flat[0] != strconv.Itoa(rank) || !ok || !FloatEq(g, sc) {
			return c.fail("[" + strconv.Itoa(rank) + " " + strconv.FormatFloat(sc, 'g', -1, 64) + "]"), true
		}
		return nil, true
	case "ZREM":
		if len(a) < 2 {
			return c.err(), true
		}
		e, wrong := m.zsetAt(a[0])
		if wrong {
			return c.err(), true
		}
		n := int64(0)
		if e != nil {
			for _, mb := range a[1:] {
				if _, ok := e.Z[mb]; ok {
					delete(e.Z, mb)
					n++
				}
			}
			m.touch(a[0])
		}
		return c.integer(n), true
	case "ZPOPMIN", "ZPOPMAX":
		if len(a) < 1 || len(a) > 2 {
			return c.err(), true
		}
		count := int64(1)
		if len(a) == 2 {
			n, ok := parseInt(a[1])
			if !ok {
				return c.err(), true
			}
			if n <= 0 {
				m.Soft = true // count ≤ 0: the docs treat 0 as 1, Redis returns nothing; not asserted
				m.touch(a[0])
				return nil, true
			}
			count = n
		}
		e, wrong := m.zsetAt(a[0])
		if wrong {
			return c.err(), true
		}
		if e == nil || len(e.Z) == 0 {
			return c.emptyOrNil(), true
		}
		srt := Sorted(e.Z)
		if name == "ZPOPMAX" {
			reversePairs(srt)
		}
		n := min(count, int64(len(srt)))
		popped := srt[:n]
		for _, p := range popped {
			delete(e.Z, p.M)
		}
		m.touch(a[0])
		return c.pairMultiset(true, popped), true
	case "ZMPOP":
		return m.cmdZMPop(c, a), true
	case "ZREMRANGEBYSCORE":
		if len(a) != 3 {
			return c.err(), true
		}
		if strings.HasPrefix(a[1], "(") || strings.HasPrefix(a[2], "(") {
			m.Soft = true
			m.touch(a[0])
			return nil, true
		}
		lo, ok1 := ParseScore(a[1])
		hi, ok2 := ParseScore(a[2])
		if !ok1 || !ok2 {
			return c.err(), true
		}
		e, wrong := m.zsetAt(a[0])
		if wrong {
			return c.err(), true
		}
		n := int64(0)
		if e != nil {
			for mb, s := range e.Z {
				if s >= lo && s <= hi {
					delete(e.Z, mb)
					n++
				}
			}
			m.touch(a[0])
		}
		return c.integer(n), true
	case "ZREMRANGEBYLEX":
		if len(a) != 3 {
			return c.err(), true
		}
		e, wrong := m.zsetAt(a[0])
		if wrong {
			return c.err(), true
		}
		if e == nil {
			return c.integer(0), true
		}
		if !plainLex(a[1]) || !plainLex(a[2]) || !sameScores(e.Z) {
			m.Soft = true
			m.touch(a[0])
			return nil, true
		}
		n := int64(0)
		for mb := range e.Z {
			if mb >= a[1] && mb <= a[2] {
				delete(e.Z, mb)
				n++
			}
		}
		m.touch(a[0])
		return c.integer(n), true
	case "ZREMRANGEBYRANK":
		if len(a) != 3 {
			return c.err(), true
		}
		s, ok1 := parseInt(a[1])
		en, ok2 := parseInt(a[2])
		if !ok1 || !ok2 {
			return c.err(), true
		}
		e, wrong := m.zsetAt(a[0])
		if wrong {
			return c.err(), true
		}
		if e == nil {
			if c.rep.IsErr() {
				return nil, true
			}
			return c.integer(0), true
		}
		n := int64(len(e.Z))
		inRange := func(i int64) bool { return i >= -n && i < n }
		if !inRange(s) || !inRange(en) {
			// out-of-range ranks: clamped (Redis) or rejected — not asserted; an error leaves the set
			// unchanged, a non-error reply must equal the number actually removed (digest + count).
			if c.rep.IsErr() {
				return nil, true
			}
		}
		lo, hi, ok := normRange(s, en, n)
		if !ok && !c.rep.IsErr() {
			// start > stop after normalisation: Redis removes nothing, the handler here walks the range
			// backwards on purpose; not asserted, but the reply must be the number actually removed and
			// nothing may be invented.
			pre := e.Clone()
			rep, isInt := c.rep.AsInt()
			m.Soft = true
			m.touch(a[0])
			m.SoftCheck = func(key string, got KeyState) (string, bool) {
				if key != a[0] {
					return "", true
				}
				for mb, sc := range got.Z {
					if old, ok := pre.Z[mb]; !ok || old != sc {
						return "ZREMRANGEBYRANK invented or changed member " + strconv.Quote(mb), false
					}
				}
				if !isInt || int(rep) != len(pre.Z)-len(got.Z) {
					return "ZREMRANGEBYRANK reply does not equal the number of removed members", false
				}
				return "", true
			}
			return nil, true
		}
		removed := int64(0)
		if ok {
			srt := Sorted(e.Z)
			for i := lo; i <= hi; i++ {
				delete(e.Z, srt[i].M)
				removed++
			}
			m.touch(a[0])
		} else if c.rep.IsErr() {
			return nil, true
		}
		return c.integer(removed), true
	case "ZRANGE":
		return m.cmdZRange(c, a, false), true
	case "ZRANGESTORE":
		return m.cmdZRange(c, a, true), true
	case "ZRANDMEMBER":
		return m.cmdZRandMember(c, a), true
	case "ZUNION", "ZINTER", "ZDIFF":
		return m.cmdZAlgebra(c, name[1:], a, false), true
	case "ZUNIONSTORE", "ZINTERSTORE", "ZDIFFSTORE":
		return m.cmdZAlgebra(c, name[1:len(name)-5], a, true), true
	}
	return nil, false
}

func reversePairs(p []ZPair) {
	for i, j := 0, len(p)-1; i < j; i, j = i+1, j-1 {
		p[i], p[j] = p[j], p[i]
	}
}

func plainLex(s string) bool {
	return s != "" && s != "-" && s != "+" && s[0] != '[' && s[0] != '('
}

func sameScores(z map[string]float64) bool {
	first := true
	var s0 float64
	for _, s := range z {
		if first {
			s0, first = s, false
		} else if s != s0 {
			return false
		}
	}
	return true
}

func (m *Model) cmdZAdd(c chk, a []string) error {
	if len(a) < 3 {
		return c.err()
	}
	var nx, xx, gt, lt, ch, incr bool
	i := 1
	for ; i < len(a); i++ {
		switch up(a[i]) {
		case "NX":
			nx = true
		case "XX":
			xx = true
		case "GT":
			gt = true
		case "LT":
			lt = true
		case "CH":
			ch = true
		case "INCR":
			incr = true
		default:
			goto done
		}
	}
done:
	rest := a[i:]
	if len(rest) == 0 || len(rest)%2 != 0 {
		return c.err()
	}
	type pr struct {
		m string
		s float64
	}
	var prs []pr
	for j := 0; j < len(rest); j += 2 {
		s, ok := ParseScore(rest[j])
		if !ok {
			return c.err()
		}
		prs = append(prs, pr{rest[j+1], s})
	}
	if nx && (gt || lt) {
		return c.err()
	}
	if incr && len(prs) != 1 {
		return c.err()
	}
	if (nx && xx) || (gt && lt) || (incr && (nx || xx || gt || lt)) {
		// contradictory flag pairs and INCR combined with a condition: neither the property nor the
		// docs fix the outcome; the model adopts it.
		m.Soft = true
		m.touch(a[0])
		return nil
	}
	e, wrong := m.zsetAt(a[0])
	if wrong {
		return c.err()
	}
	// A member named like a flag, or duplicates of one member in one call: outside the asserted domain.
	dup := map[string]bool{}
	for _, p := range prs {
		if dup[p.m] {
			m.Soft = true
			m.touch(a[0])
			return nil
		}
		dup[p.m] = true
	}
	ne := newZ()
	if e != nil {
		ne = e
	}
	added, changed := int64(0), int64(0)
	var incrResult *float64
	blocked := false
	for _, p := range prs {
		old, exists := ne.Z[p.m]
		nv := p.s
		if incr {
			if exists && math.IsInf(old, 0) && c.rep.IsErr() {
				return nil
			}
			nv = old + p.s
			if math.IsNaN(nv) {
				m.Soft = true
				m.touch(a[0])
				return nil
			}
		}
		if !exists {
			if xx {
				blocked = true
				continue
			}
			ne.Z[p.m] = nv
			added++
			v := nv
			incrResult = &v
			continue
		}
		if nx {
			blocked = true
			continue
		}
		if gt && !(nv > old) {
			blocked = true
			continue
		}
		if lt && !(nv < old) {
			blocked = true
			continue
		}
		if nv != old {
			changed++
		}
		ne.Z[p.m] = nv
		v := nv
		incrResult = &v
	}
	if e != nil || len(ne.Z) > 0 {
		m.set(a[0], ne)
	}
	if incr {
		if blocked || incrResult == nil {
			return c.nilv()
		}
		return c.number(*incrResult)
	}
	_ = 0
	if ch {
		return c.integer(added + changed)
	}
	return c.integer(added)
}

func (m *Model) cmdZMPop(c chk, a []string) error {
	// ZMPOP key [key ...] <MIN | MAX> [COUNT count]
	idx := -1
	for i, x := range a {
		if i > 0 && (up(x) == "MIN" || up(x) == "MAX") {
			idx = i
		}
	}
	if idx < 1 {
		if c.rep.IsErr() {
			return nil
		}
		// no MIN|MAX given: the syntax requires one; a server that picks a default is not judged
		for _, k := range a {
			m.touch(k)
		}
		m.Soft = true
		return nil
	}
	keys := a[:idx]
	isMax := up(a[idx]) == "MAX"
	count := int64(1)
	rest := a[idx+1:]
	switch len(rest) {
	case 0:
	case 2:
		if up(rest[0]) != "COUNT" {
			return c.err()
		}
		n, ok := parseInt(rest[1])
		if !ok {
			return c.err()
		}
		if n <= 0 {
			for _, k := range keys {
				m.touch(k)
			}
			m.Soft = true
			return nil
		}
		count = n
	default:
		return c.err()
	}
	// keys named like the options are outside the asserted domain
	for _, k := range keys {
		if u := up(k); u == "MIN" || u == "MAX" || u == "COUNT" {
			for _, k2 := range keys {
				m.touch(k2)
			}
			m.Soft = true
			return nil
		}
	}
	for _, k := range keys {
		e, wrong := m.zsetAt(k)
		if wrong {
			if c.rep.IsErr() {
				return nil
			}
			// skipping a wrong-type key is what the handler documents; continue
			continue
		}
		if e == nil || len(e.Z) == 0 {
			continue
		}
		srt := Sorted(e.Z)
		if isMax {
			reversePairs(srt)
		}
		n := min(count, int64(len(srt)))
		popped := srt[:n]
		for _, p := range popped {
			delete(e.Z, p.M)
		}
		m.touch(k)
		// reply may carry the key name first; the order of the popped pairs in the reply is not asserted
		var flat []string
		if c.rep.IsErr() || !flatScalars(c.rep, &flat) {
			return c.fail("popped pairs " + pairsStr(popped))
		}
		if len(flat)%2 == 1 && len(flat) > 0 && flat[0] == k {
			flat = flat[1:]
		}
		if len(flat) != 2*len(popped) {
			return c.fail("popped pairs " + pairsStr(popped))
		}
		want := map[string]float64{}
		for _, p := range popped {
			want[p.M] = p.S
		}
		for i := 0; i < len(flat); i += 2 {
			g, ok := ParseScore(flat[i+1])
			w, present := want[flat[i]]
			if !present || !ok || !FloatEq(g, w) {
				return c.fail("popped pairs " + pairsStr(popped))
			}
			delete(want, flat[i])
		}
		return nil
	}
	return c.emptyOrNil()
}

func (m *Model) cmdZRange(c chk, a []string, store bool) error {
	off := 0
	if store {
		off = 1
	}
	if len(a) < 3+off {
		return c.err()
	}
	key := a[off]
	startS, stopS := a[off+1], a[off+2]
	var byScore, byLex, rev, ws, hasLimit bool
	var lOff, lCnt int64
	opts := a[off+3:]
	for i := 0; i < len(opts); i++ {
		switch up(opts[i]) {
		case "BYSCORE":
			byScore = true
		case "BYLEX":
			byLex = true
		case "REV":
			rev = true
		case "WITHSCORES":
			ws = true
		case "LIMIT":
			if i+2 >= len(opts) {
				return c.err()
			}
			o, ok1 := parseInt(opts[i+1])
			n, ok2 := parseInt(opts[i+2])
			if !ok1 || !ok2 || o < 0 {
				return c.err()
			}
			hasLimit, lOff, lCnt = true, o, n
			i += 2
		default:
			return c.err()
		}
	}
	if byScore && byLex {
		return nil // not asserted
	}
	var lo, hi float64
	if !byLex {
		var ok1, ok2 bool
		lo, ok1 = ParseScore(startS)
		hi, ok2 = ParseScore(stopS)
		if strings.HasPrefix(startS, "(") || strings.HasPrefix(stopS, "(") {
			if store {
				m.Soft = true
				m.touch(a[0])
			}
			return nil
		}
		if !ok1 || !ok2 {
			return c.err()
		}
	}
	e, wrong := m.zsetAt(key)
	if wrong {
		return c.err()
	}
	var all []ZPair
	if e != nil {
		all = Sorted(e.Z)
	}
	inb := func(p ZPair) bool {
		if byLex {
			return p.M >= startS && p.M <= stopS
		}
		return p.S >= lo && p.S <= hi
	}
	if byLex {
		if e != nil && (!sameScores(e.Z) || !plainLex(startS) || !plainLex(stopS)) {
			if store {
				m.Soft = true
				m.touch(a[0])
			}
			return nil
		}
		sort.Slice(all, func(i, j int) bool { return all[i].M < all[j].M })
	}
	if rev {
		reversePairs(all)
	}
	window := func(seq []ZPair) []ZPair {
		if !hasLimit {
			return seq
		}
		if lOff >= int64(len(seq)) {
			return nil
		}
		seq = seq[lOff:]
		if lCnt >= 0 && lCnt < int64(len(seq)) {
			seq = seq[:lCnt]
		}
		return seq
	}
	// Interpretation A: bounds first, then the window. Interpretation B: window over the whole ordered
	// set, then the bounds filter. The documentation supports both; either is accepted.
	var candA, candB []ZPair
	for _, p := range all {
		if inb(p) {
			candA = append(candA, p)
		}
	}
	candA = window(candA)
	for _, p := range window(all) {
		if inb(p) {
			candB = append(candB, p)
		}
	}
	if store {
		// adopt whichever interpretation the server used (validated through the digest by SoftCheckZ)
		m.Get(a[0])
		res := candA
		n, ok := c.rep.AsInt()
		if ok && !c.rep.IsErr() && int(n) == len(candB) && len(candB) != len(candA) {
			res = candB
		}
		if len(res) == 0 {
			m.del(a[0])
		} else {
			ne := newZ()
			for _, p := range res {
				ne.Z[p.M] = p.S
			}
			m.setStore(a[0], ne)
		}
		if len(res) == 0 && c.rep.IsErr() {
			return nil
		}
		return c.integer(int64(len(res)))
	}
	if len(candA) == 0 && len(candB) == 0 {
		return c.emptyOrNil()
	}
	return c.seqOneOf(ws, candA, candB)
}

func (m *Model) cmdZRandMember(c chk, a []string) error {
	if len(a) < 1 || len(a) > 3 {
		return c.err()
	}
	count := int64(1)
	hasCount := false
	if len(a) >= 2 {
		n, ok := parseInt(a[1])
		if !ok {
			return c.err()
		}
		count, hasCount = n, true
	}
	ws := false
	if len(a) == 3 {
		if up(a[2]) != "WITHSCORES" {
			return c.err()
		}
		ws = true
	}
	e, wrong := m.zsetAt(a[0])
	if wrong {
		return c.err()
	}
	if e == nil || len(e.Z) == 0 {
		return c.emptyOrNil()
	}
	if hasCount && count == 0 {
		if c.emptyOrNil() == nil {
			return nil
		}
		count = 1 // a zero count is not documented for ZRANDMEMBER: empty, or treated like the default
	}
	var flat []string
	if c.rep.IsErr() || !flatScalars(c.rep, &flat) {
		return c.fail("a selection of members")
	}
	stride := 1
	if ws {
		stride = 2
		if len(flat)%2 != 0 {
			return c.fail("member/score pairs")
		}
	}
	var wantN int64
	if count > 0 {
		wantN = min(count, int64(len(e.Z)))
	} else {
		wantN = -count
	}
	if int64(len(flat)/stride) != wantN {
		return c.fail("a selection of " + strconv.FormatInt(wantN, 10) + " members")
	}
	seen := map[string]bool{}
	for i := 0; i < len(flat); i += stride {
		s, ok := e.Z[flat[i]]
		if !ok {
			return c.fail("only current members")
		}
		if count > 0 && seen[flat[i]] {
			return c.fail("distinct members for a positive count")
		}
		seen[flat[i]] = true
		if ws {
			g, ok := ParseScore(flat[i+1])
			if !ok || !FloatEq(g, s) {
				return c.fail("scores matching the members")
			}
		}
	}
	return nil
}

func (m *Model) cmdZAlgebra(c chk, op string, a []string, store bool) error {
	off := 0
	if store {
		off = 1
	}
	if len(a) < 1+off {
		return c.err()
	}
	rest := a[off:]
	// keys run until the first option word
	nk := len(rest)
	for i, x := range rest {
		if u := up(x); i > 0 && (u == "WEIGHTS" || u == "AGGREGATE" || u == "WITHSCORES") {
			nk = i
			break
		}
	}
	keys := rest[:nk]
	opts := rest[nk:]
	weights := make([]float64, len(keys))
	for i := range weights {
		weights[i] = 1
	}
	agg := "SUM"
	ws := false
	for i := 0; i < len(opts); i++ {
		switch up(opts[i]) {
		case "WITHSCORES":
			ws = true
		case "AGGREGATE":
			if i+1 >= len(opts) || op == "DIFF" {
				return c.err()
			}
			agg = up(opts[i+1])
			if agg != "SUM" && agg != "MIN" && agg != "MAX" {
				return c.err()
			}
			i++
		case "WEIGHTS":
			if op == "DIFF" {
				return c.err()
			}
			j := i + 1
			var w []float64
			for ; j < len(opts); j++ {
				f, ok := ParseScore(opts[j])
				if !ok {
					break
				}
				w = append(w, f)
			}
			if len(w) != len(keys) {
				return c.err()
			}
			for _, f := range w {
				if f != math.Trunc(f) && c.rep.IsErr() {
					return nil // fractional weights: accepted by Redis, refused here; the docs do not say
				}
			}
			weights = w
			i = j - 1
		default:
			return c.err()
		}
	}
	// keys named like options, or the destination among the sources with odd parsers: not asserted
	for _, k := range keys {
		if u := up(k); u == "WEIGHTS" || u == "AGGREGATE" || u == "WITHSCORES" {
			if store {
				m.Soft = true
				m.touch(a[0])
			}
			return nil
		}
	}
	sets := make([]map[string]float64, len(keys))
	missing := false
	wrongType := false
	for i, k := range keys {
		e, wrong := m.zsetAt(k)
		if wrong {
			if c.rep.IsErr() {
				return nil
			}
			wrongType = true
			e = nil
		}
		if e == nil {
			missing = true
			sets[i] = map[string]float64{}
		} else {
			sets[i] = e.Z
		}
	}
	if missing && c.rep.IsErr() {
		// the API comments of ZUnion/ZInter document an error for a missing key, the STORE comments say
		// "skipped": both accepted (nothing may change on an error — checked by the digest).
		return nil
	}
	res := map[string]float64{}
	combine := func(cur, x float64, first bool) float64 {
		if first {
			return x
		}
		switch agg {
		case "MIN":
			return math.Min(cur, x)
		case "MAX":
			return math.Max(cur, x)
		}
		return cur + x
	}
	nanSeen := false
	mul := func(s, w float64) float64 {
		v := s * w
		if math.IsNaN(v) {
			nanSeen = true // inf * 0: Redis defines it as 0, IEEE as NaN; the docs say nothing
			return 0
		}
		return v
	}
	switch op {
	case "UNION":
		for i, s := range sets {
			for mb, sc := range s {
				cur, ok := res[mb]
				res[mb] = combine(cur, mul(sc, weights[i]), !ok)
			}
		}
	case "INTER":
		for mb := range sets[0] {
			in := true
			for _, s := range sets[1:] {
				if _, ok := s[mb]; !ok {
					in = false
					break
				}
			}
			if !in {
				continue
			}
			for i, s := range sets {
				cur, ok := res[mb]
				res[mb] = combine(cur, mul(s[mb], weights[i]), !ok)
			}
		}
	case "DIFF":
		for mb, sc := range sets[0] {
			in := false
			for _, s := range sets[1:] {
				if _, ok := s[mb]; ok {
					in = true
					break
				}
			}
			if !in {
				res[mb] = sc
			}
		}
	}
	if nanSeen {
		if store {
			m.Soft = true
			m.touch(a[0])
		}
		return nil
	}
	for _, v := range res {
		if math.IsNaN(v) {
			if store {
				m.Soft = true
				m.touch(a[0])
			}
			return nil
		}
	}
	if wrongType {
		// A wrong-type operand must make the command fail (property); "skipped" is what some API comments
		// say. A non-error reply is only accepted here if it is the result with that operand skipped.
		_ = wrongType
	}
	want := Sorted(res)
	if store {
		m.Get(a[0])
		if len(res) == 0 {
			m.del(a[0])
			if c.rep.IsErr() {
				return nil
			}
		} else {
			ne := newZ()
			ne.Z = res
			m.setStore(a[0], ne)
		}
		return c.integer(int64(len(res)))
	}
	if len(want) == 0 {
		return c.emptyOrNil()
	}
	return c.pairMultiset(ws, want)
}
