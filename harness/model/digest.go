package model

import (
	"fmt"
	"sort"
	"strconv"
	"strings"

	"verifharness/resp"
)

// KeyState is what the plain readers of the server report about one key.
type KeyState struct {
	Type     string             `json:"type"` // TNone, TString, THash, TList, TSet, TZSet, or "?x" / "!error"
	S        string             `json:"s,omitempty"`
	H        map[string]string  `json:"h,omitempty"`
	L        []string           `json:"l,omitempty"`
	Set      []string           `json:"set,omitempty"`
	Z        map[string]float64 `json:"z,omitempty"`
	Deadline int64              `json:"deadline"` // unix ms, 0 none, -2 absent
	// DeadlineAlt (expected states only): a second admissible deadline, see Entry.DeadlineAlt.
	DeadlineAlt int64  `json:"deadline_alt,omitempty"`
	Note        string `json:"note,omitempty"`
	Hidden      int    `json:"hidden,omitempty"` // sorted-set members not returned by a full score range (NaN scores)
}

// Doer runs one command and returns the parsed reply plus a panic text (empty if none).
type Doer func(args ...string) (resp.Value, string)

// Observe reads one key of the currently selected database through the plainest readers.
func Observe(do Doer, key string) KeyState {
	ks := KeyState{}
	tv, p := do("TYPE", key)
	if p != "" {
		return KeyState{Type: "!panic", Note: "TYPE: " + firstLine(p)}
	}
	if tv.IsErr() {
		ks.Type = TNone
	} else {
		s, _ := tv.Text()
		if s == "none" {
			ks.Type = TNone
		} else {
			ks.Type = ServerTypeClass(s)
		}
	}
	bad := func(cmd string, v resp.Value, p string) KeyState {
		if p != "" {
			return KeyState{Type: "!panic", Note: cmd + ": " + firstLine(p)}
		}
		return KeyState{Type: "!error", Note: cmd + " on a " + ks.Type + " key answered " + v.Canon()}
	}
	switch ks.Type {
	case TNone:
		ks.Deadline = -2
		return ks
	case TString:
		v, p := do("GET", key)
		s, ok := v.Text()
		if p != "" || v.IsErr() || !ok {
			return bad("GET", v, p)
		}
		ks.S = s
	case THash:
		v, p := do("HGETALL", key)
		l, ok := v.Strings()
		if p != "" || v.IsErr() || !ok || len(l)%2 != 0 {
			return bad("HGETALL", v, p)
		}
		ks.H = map[string]string{}
		for i := 0; i < len(l); i += 2 {
			ks.H[l[i]] = l[i+1]
		}
	case TList:
		v, p := do("LRANGE", key, "0", "-1")
		l, ok := v.Strings()
		if p != "" || v.IsErr() || !ok {
			return bad("LRANGE", v, p)
		}
		ks.L = l
	case TSet:
		v, p := do("SMEMBERS", key)
		l, ok := v.Strings()
		if p != "" || v.IsErr() || !ok {
			return bad("SMEMBERS", v, p)
		}
		ks.Set = resp.SortedStrings(l)
	case TZSet:
		v, p := do("ZRANGE", key, "-inf", "+inf", "BYSCORE", "WITHSCORES")
		if p != "" || v.IsErr() {
			return bad("ZRANGE", v, p)
		}
		z, ok := ParseZPairs(v)
		if !ok {
			return bad("ZRANGE", v, p)
		}
		ks.Z = map[string]float64{}
		for _, pr := range z {
			ks.Z[pr.M] = pr.S
		}
		// Members with a NaN score are invisible to a score range; ZCARD tells whether there are any.
		if cv, p := do("ZCARD", key); p == "" {
			if n, ok := cv.AsInt(); ok && int(n) != len(ks.Z) {
				ks.Hidden = int(n) - len(ks.Z)
			}
		}
	}
	dv, p := do("PEXPIRETIME", key)
	d, ok := dv.AsInt()
	if p != "" || dv.IsErr() || !ok {
		return bad("PEXPIRETIME", dv, p)
	}
	if d == -1 {
		d = 0
	}
	ks.Deadline = d
	return ks
}

// ZPair is one (member, score).
type ZPair struct {
	M string
	S float64
}

// ParseZPairs reads a WITHSCORES reply: either a flat array m1 s1 m2 s2 … or an array of [m, s] pairs.
func ParseZPairs(v resp.Value) ([]ZPair, bool) {
	l, ok := v.List()
	if !ok {
		if v.IsNil() {
			return nil, true
		}
		return nil, false
	}
	var out []ZPair
	if len(l) > 0 {
		if _, nested := l[0].List(); nested {
			for _, e := range l {
				pe, ok := e.List()
				if !ok || len(pe) != 2 {
					return nil, false
				}
				mtxt, ok1 := pe[0].Text()
				sc, ok2 := pe[1].AsFloat()
				if !ok1 || !ok2 {
					return nil, false
				}
				out = append(out, ZPair{mtxt, sc})
			}
			return out, true
		}
	}
	if len(l)%2 != 0 {
		return nil, false
	}
	for i := 0; i < len(l); i += 2 {
		mtxt, ok1 := l[i].Text()
		sc, ok2 := l[i+1].AsFloat()
		if !ok1 || !ok2 {
			return nil, false
		}
		out = append(out, ZPair{mtxt, sc})
	}
	return out, true
}

func firstLine(s string) string {
	if i := strings.IndexByte(s, '\n'); i >= 0 {
		return s[:i]
	}
	return s
}

// Expected returns the KeyState the model predicts for key in database db.
func (m *Model) Expected(db int, key string) KeyState {
	e := m.Peek(db, key)
	if e == nil {
		return KeyState{Type: TNone, Deadline: -2}
	}
	ks := KeyState{Type: e.Type, Deadline: e.Deadline, DeadlineAlt: e.DeadlineAlt}
	switch e.Type {
	case TString:
		ks.S = e.S
	case THash:
		ks.H = map[string]string{}
		for k, v := range e.H {
			ks.H[k] = v
		}
	case TList:
		ks.L = append([]string{}, e.L...)
	case TSet:
		for k := range e.Set {
			ks.Set = append(ks.Set, k)
		}
		sort.Strings(ks.Set)
	case TZSet:
		ks.Z = map[string]float64{}
		for k, v := range e.Z {
			ks.Z[k] = v
		}
	}
	return ks
}

// Diff describes how an observed key state deviates from the expected one.
type Diff struct {
	Key   string
	Part  string // "type", "value", "deadline", "liveness", "observe"
	Want  KeyState
	Got   KeyState
	Extra string
}

func (d *Diff) Error() string {
	ex := ""
	if d.Extra != "" {
		ex = " [" + d.Extra + "]"
	}
	return fmt.Sprintf("state mismatch on key %q (%s)%s: want %s, got %s", d.Key, d.Part, ex, d.Want.Canon(), d.Got.Canon())
}

// Canon renders a key state compactly.
func (k KeyState) Canon() string {
	var b strings.Builder
	b.WriteString(k.Type)
	switch k.Type {
	case TString:
		b.WriteString(" " + strconv.Quote(k.S))
	case THash:
		ks := make([]string, 0, len(k.H))
		for f := range k.H {
			ks = append(ks, f)
		}
		sort.Strings(ks)
		b.WriteString(" {")
		for i, f := range ks {
			if i > 0 {
				b.WriteString(", ")
			}
			b.WriteString(strconv.Quote(f) + ":" + strconv.Quote(k.H[f]))
		}
		b.WriteString("}")
	case TList:
		b.WriteString(fmt.Sprintf(" %q", k.L))
	case TSet:
		b.WriteString(fmt.Sprintf(" %q", k.Set))
	case TZSet:
		ks := make([]string, 0, len(k.Z))
		for f := range k.Z {
			ks = append(ks, f)
		}
		sort.Strings(ks)
		b.WriteString(" {")
		for i, f := range ks {
			if i > 0 {
				b.WriteString(", ")
			}
			b.WriteString(strconv.Quote(f) + ":" + strconv.FormatFloat(k.Z[f], 'g', -1, 64))
		}
		b.WriteString("}")
	}
	if k.Deadline > 0 {
		b.WriteString(fmt.Sprintf(" @%d", k.Deadline))
	}
	if k.Note != "" {
		b.WriteString(" (" + k.Note + ")")
	}
	return b.String()
}

// emptyCollection: an observed or expected collection with no elements.
func (k KeyState) emptyCollection() bool {
	switch k.Type {
	case THash:
		return len(k.H) == 0
	case TList:
		return len(k.L) == 0
	case TSet:
		return len(k.Set) == 0
	case TZSet:
		return len(k.Z) == 0
	}
	return false
}

// CompareKey compares the expected and the observed state of one key. It returns nil when they agree
// under the comparison rules of DESIGN 3.3 / SPEC: an emptied collection may linger as an empty key
// or vanish; a FloatMarker string matches any text with the same numeric value.
func CompareKey(key string, want, got KeyState) *Diff {
	if strings.HasPrefix(got.Type, "!") {
		return &Diff{Key: key, Part: "observe", Want: want, Got: got}
	}
	// Whether an emptied collection still exists as a key is not asserted.
	if want.emptyCollection() && (got.Type == TNone || (got.Type == want.Type && got.emptyCollection())) {
		return nil
	}
	if want.Type == TNone && got.emptyCollection() {
		return nil
	}
	if want.Type != got.Type {
		part := "type"
		if want.Type == TNone || got.Type == TNone {
			part = "liveness"
		}
		return &Diff{Key: key, Part: part, Want: want, Got: got}
	}
	switch want.Type {
	case TString:
		if strings.HasPrefix(want.S, FloatMarker) {
			wf, _ := strconv.ParseFloat(want.S[len(FloatMarker):], 64)
			gf, err := strconv.ParseFloat(got.S, 64)
			if err != nil || !FloatEq(wf, gf) {
				return &Diff{Key: key, Part: "value", Want: want, Got: got}
			}
		} else if want.S != got.S {
			return &Diff{Key: key, Part: "value", Want: want, Got: got}
		}
	case THash:
		if len(want.H) != len(got.H) {
			return &Diff{Key: key, Part: "value", Want: want, Got: got}
		}
		for f, v := range want.H {
			gv, ok := got.H[f]
			if !ok {
				return &Diff{Key: key, Part: "value", Want: want, Got: got}
			}
			if strings.HasPrefix(v, FloatMarker) {
				wf, _ := strconv.ParseFloat(v[len(FloatMarker):], 64)
				gf, err := strconv.ParseFloat(gv, 64)
				if err != nil || !FloatEq(wf, gf) {
					return &Diff{Key: key, Part: "value", Want: want, Got: got}
				}
			} else if gv != v {
				return &Diff{Key: key, Part: "value", Want: want, Got: got}
			}
		}
	case TList:
		if len(want.L) != len(got.L) {
			return &Diff{Key: key, Part: "value", Want: want, Got: got}
		}
		for i := range want.L {
			if want.L[i] != got.L[i] {
				return &Diff{Key: key, Part: "value", Want: want, Got: got}
			}
		}
	case TSet:
		if len(want.Set) != len(got.Set) {
			return &Diff{Key: key, Part: "value", Want: want, Got: got}
		}
		for i := range want.Set {
			if want.Set[i] != got.Set[i] {
				return &Diff{Key: key, Part: "value", Want: want, Got: got}
			}
		}
	case TZSet:
		if got.Hidden != 0 {
			return &Diff{Key: key, Part: "value", Want: want, Got: got, Extra: "sorted set holds members that a full score range does not return (NaN score)"}
		}
		if len(want.Z) != len(got.Z) {
			return &Diff{Key: key, Part: "value", Want: want, Got: got}
		}
		for mbr, s := range want.Z {
			gs, ok := got.Z[mbr]
			if !ok || !FloatEq(s, gs) {
				return &Diff{Key: key, Part: "value", Want: want, Got: got}
			}
		}
	}
	if want.Type != TNone && want.Deadline != got.Deadline && !(want.DeadlineAlt != 0 && got.Deadline == want.DeadlineAlt) {
		return &Diff{Key: key, Part: "deadline", Want: want, Got: got}
	}
	return nil
}

// Adopt replaces the model's entry for key in database db by the observed state (re-synchronisation
// after a step attributed to a known finding, or after a Soft step).
func (m *Model) Adopt(db int, key string, ks KeyState) {
	d := m.DBOf(db)
	switch ks.Type {
	case TString:
		d[key] = &Entry{Type: TString, S: ks.S, Deadline: ks.Deadline}
	case THash:
		e := &Entry{Type: THash, H: map[string]string{}, Deadline: ks.Deadline}
		for k, v := range ks.H {
			e.H[k] = v
		}
		d[key] = e
	case TList:
		d[key] = &Entry{Type: TList, L: append([]string{}, ks.L...), Deadline: ks.Deadline}
	case TSet:
		e := &Entry{Type: TSet, Set: map[string]struct{}{}, Deadline: ks.Deadline}
		for _, k := range ks.Set {
			e.Set[k] = struct{}{}
		}
		d[key] = e
	case TZSet:
		e := &Entry{Type: TZSet, Z: map[string]float64{}, Deadline: ks.Deadline}
		for k, v := range ks.Z {
			e.Z[k] = v
		}
		d[key] = e
	default:
		delete(d, key)
	}
}
