package model

import (
	"strconv"
)

func (m *Model) listAt(key string) (e *Entry, wrong bool) {
	e = m.Get(key)
	if e != nil && e.Type != TList {
		return e, true
	}
	return e, false
}

// normRange normalises LRANGE/LTRIM style indices over a sequence of length n (inclusive bounds,
// negatives from the tail, clamped). ok=false means the range is empty.
func normRange(s, e int64, n int64) (int64, int64, bool) {
	if s < 0 {
		s += n
		if s < 0 {
			s = 0
		}
	}
	if e < 0 {
		e += n
	}
	if e >= n {
		e = n - 1
	}
	if s > e || s >= n || e < 0 {
		return 0, 0, false
	}
	return s, e, true
}

func (m *Model) stepList(c chk, name string, a []string) (error, bool) {
	switch name {
	case "LPUSH", "RPUSH", "LPUSHX", "RPUSHX":
		if len(a) < 2 {
			return c.err(), true
		}
		e, wrong := m.listAt(a[0])
		if wrong {
			return c.err(), true
		}
		x := name[len(name)-1] == 'X'
		if x && e == nil {
			// absent: unchanged; reply an error or 0
			if c.rep.IsErr() {
				return nil, true
			}
			return c.integer(0), true
		}
		ne := &Entry{Type: TList}
		if e != nil {
			ne = e
		}
		els := a[1:]
		if name[0] == 'R' {
			ne.L = append(ne.L, els...)
		} else {
			// The relative order of several elements of one LPUSH is not fixed by the property or the
			// docs: both the Redis order (each pushed to the head in turn) and the block order are
			// accepted; the model adopts what the server does when the two differ.
			if len(els) > 1 && !allEqual(els) {
				m.Soft = true
				m.softLPush = &softLPush{key: a[0], old: append([]string{}, ne.L...), els: append([]string{}, els...)}
				m.set(a[0], ne)
				return c.integer(int64(len(ne.L) + len(els))), true
			}
			ne.L = append(append([]string{}, els...), ne.L...)
		}
		m.set(a[0], ne)
		return c.integer(int64(len(ne.L))), true
	case "LPOP", "RPOP":
		if len(a) < 1 || len(a) > 2 {
			return c.err(), true
		}
		hasCount := len(a) == 2
		count := int64(1)
		if hasCount {
			n, ok := parseInt(a[1])
			if !ok {
				if m.Get(a[0]) == nil && c.rep.IsNil() {
					return nil, true
				}
				return c.err(), true
			}
			count = n
		}
		e, wrong := m.listAt(a[0])
		if wrong {
			return c.err(), true
		}
		if hasCount && count < 0 {
			// negative count: an error (Redis) or |count| (pinned by a test) — not asserted; adopt, but
			// the digest must stay a list that is a sub-sequence (checked by SoftCheck in the engine).
			m.Soft = true
			m.touch(a[0])
			return nil, true
		}
		if e == nil || len(e.L) == 0 {
			return c.emptyOrNil(), true
		}
		n := min(count, int64(len(e.L)))
		var popped []string
		if name == "LPOP" {
			popped = append(popped, e.L[:n]...)
			e.L = append([]string{}, e.L[n:]...)
		} else {
			for i := int64(0); i < n; i++ {
				popped = append(popped, e.L[len(e.L)-1-int(i)])
			}
			e.L = append([]string{}, e.L[:int64(len(e.L))-n]...)
		}
		m.touch(a[0])
		if !hasCount {
			if l, ok := c.rep.Strings(); ok && len(l) == 1 && l[0] == popped[0] {
				return nil, true
			}
			return c.text(popped[0]), true
		}
		if n == 0 {
			return c.emptyOrNil(), true
		}
		return c.list(popped), true
	case "LLEN":
		if len(a) != 1 {
			return c.err(), true
		}
		e, wrong := m.listAt(a[0])
		if wrong {
			return c.err(), true
		}
		if e == nil {
			// absent list: 0 (G3); an error is what the API comment of LLen documents for a missing key
			if c.rep.IsErr() {
				return nil, true
			}
			return c.integer(0), true
		}
		return c.integer(int64(len(e.L))), true
	case "LRANGE":
		if len(a) != 3 {
			return c.err(), true
		}
		s, ok1 := parseInt(a[1])
		en, ok2 := parseInt(a[2])
		if !ok1 || !ok2 {
			if m.Get(a[0]) == nil && !c.rep.IsErr() {
				return c.emptyOrNil(), true // malformed index on a missing key: the missing-key answer is accepted
			}
			return c.err(), true
		}
		e, wrong := m.listAt(a[0])
		if wrong {
			return c.err(), true
		}
		if e == nil {
			if c.rep.IsErr() {
				return nil, true // the API documents an error for a missing key; empty is the G3 reading
			}
			return c.emptyOrNil(), true
		}
		lo, hi, ok := normRange(s, en, int64(len(e.L)))
		if !ok {
			// empty range (start > end after normalisation, or start beyond the tail): empty array;
			// the API comment describes reversal/error for start > end, so an error is tolerated, a
			// crash is not.
			if c.rep.IsErr() {
				return nil, true
			}
			ns, ne := s, en
			if ns < 0 {
				ns += int64(len(e.L))
			}
			if ne < 0 {
				ne += int64(len(e.L))
			}
			if ns > ne && ns < int64(len(e.L)) && ne >= 0 {
				return nil, true // start > end inside the list: reversal documented by the API; not asserted
			}
			return c.emptyOrNil(), true
		}
		return c.list(e.L[lo : hi+1]), true
	case "LINDEX":
		if len(a) != 2 {
			return c.err(), true
		}
		i, ok := parseInt(a[1])
		if !ok {
			if m.Get(a[0]) == nil && c.rep.IsNil() {
				return nil, true
			}
			return c.err(), true
		}
		e, wrong := m.listAt(a[0])
		if wrong {
			return c.err(), true
		}
		n := int64(0)
		if e != nil {
			n = int64(len(e.L))
		}
		if i < 0 {
			i += n
		}
		if i < 0 || i >= n {
			if c.rep.IsErr() {
				return nil, true // "index must be within list range" is documented by the API
			}
			return c.nilv(), true
		}
		return c.text(e.L[i]), true
	case "LSET":
		if len(a) != 3 {
			return c.err(), true
		}
		i, ok := parseInt(a[1])
		if !ok {
			return c.err(), true
		}
		e, wrong := m.listAt(a[0])
		if wrong {
			return c.err(), true
		}
		n := int64(0)
		if e != nil {
			n = int64(len(e.L))
		}
		if i < 0 {
			i += n
		}
		if i < 0 || i >= n {
			return c.err(), true
		}
		e.L[i] = a[2]
		m.touch(a[0])
		return c.ok(), true
	case "LTRIM":
		if len(a) != 3 {
			return c.err(), true
		}
		s, ok1 := parseInt(a[1])
		en, ok2 := parseInt(a[2])
		if !ok1 || !ok2 {
			if m.Get(a[0]) == nil && !c.rep.IsErr() {
				return c.ok(), true
			}
			return c.err(), true
		}
		e, wrong := m.listAt(a[0])
		if wrong {
			return c.err(), true
		}
		if e == nil {
			if c.rep.IsErr() {
				return nil, true
			}
			return c.ok(), true
		}
		lo, hi, ok := normRange(s, en, int64(len(e.L)))
		if !ok {
			if c.rep.IsErr() {
				// rejecting an empty/inverted range is tolerated as long as nothing changes
				return nil, true
			}
			e.L = nil
			m.touch(a[0])
			return c.ok(), true
		}
		e.L = append([]string{}, e.L[lo:hi+1]...)
		m.touch(a[0])
		return c.ok(), true
	case "LREM":
		if len(a) != 3 {
			return c.err(), true
		}
		cnt, ok := parseInt(a[1])
		if !ok {
			return c.err(), true
		}
		e, wrong := m.listAt(a[0])
		if wrong {
			return c.err(), true
		}
		if e == nil {
			if c.rep.IsErr() {
				return nil, true
			}
			return c.integer(0), true
		}
		removed := int64(0)
		var out []string
		if cnt >= 0 {
			for _, v := range e.L {
				if v == a[2] && (cnt == 0 || removed < cnt) {
					removed++
					continue
				}
				out = append(out, v)
			}
		} else {
			lim := -cnt
			for i := len(e.L) - 1; i >= 0; i-- {
				v := e.L[i]
				if v == a[2] && removed < lim {
					removed++
					continue
				}
				out = append([]string{v}, out...)
			}
		}
		e.L = out
		m.touch(a[0])
		return c.integer(removed), true
	case "LMOVE":
		if len(a) != 4 {
			return c.err(), true
		}
		from, to := up(a[2]), up(a[3])
		if (from != "LEFT" && from != "RIGHT") || (to != "LEFT" && to != "RIGHT") {
			return c.err(), true
		}
		src, wrong := m.listAt(a[0])
		if wrong {
			return c.err(), true
		}
		dst, wrong2 := m.listAt(a[1])
		if wrong2 {
			return c.err(), true
		}
		if src == nil || len(src.L) == 0 {
			return c.nilOrErr(), true
		}
		if dst == nil && a[0] != a[1] {
			// destination absent: created (Redis) or an error (API comment) — not asserted, never partial
			if c.rep.IsErr() {
				return nil, true
			}
		}
		var el string
		if from == "LEFT" {
			el = src.L[0]
			src.L = append([]string{}, src.L[1:]...)
		} else {
			el = src.L[len(src.L)-1]
			src.L = append([]string{}, src.L[:len(src.L)-1]...)
		}
		if a[0] == a[1] {
			dst = src
		}
		if dst == nil {
			dst = &Entry{Type: TList}
		}
		if to == "LEFT" {
			dst.L = append([]string{el}, dst.L...)
		} else {
			dst.L = append(dst.L, el)
		}
		m.set(a[0], src)
		m.set(a[1], dst)
		if s, ok := c.rep.Text(); ok && !c.rep.IsErr() && (s == el || s == "OK") {
			return nil, true
		}
		return c.fail("the moved element " + strconv.Quote(el) + " or OK"), true
	}
	return nil, false
}

func allEqual(s []string) bool {
	for _, x := range s {
		if x != s[0] {
			return false
		}
	}
	return true
}

type softLPush struct {
	key string
	old []string
	els []string
}

// SoftCheckList validates an adopted list state after a multi-element LPUSH: it must be one of the
// two accepted orders, and the same order as first observed in this model's lifetime.
func (m *Model) SoftCheckList(key string, got []string) (string, bool) {
	sp := m.softLPush
	if sp == nil || sp.key != key {
		return "", true
	}
	m.softLPush = nil
	rev := make([]string, len(sp.els))
	for i, x := range sp.els {
		rev[len(sp.els)-1-i] = x
	}
	redis := append(append([]string{}, rev...), sp.old...)
	block := append(append([]string{}, sp.els...), sp.old...)
	eq := func(a, b []string) bool {
		if len(a) != len(b) {
			return false
		}
		for i := range a {
			if a[i] != b[i] {
				return false
			}
		}
		return true
	}
	isRedis, isBlock := eq(got, redis), eq(got, block)
	if !isRedis && !isBlock {
		return "after LPUSH of several elements the list is neither " + strconv.Quote(join(redis)) + " nor " + strconv.Quote(join(block)), false
	}
	if isRedis && isBlock {
		return "", true
	}
	order := 2
	if isRedis {
		order = 1
	}
	if m.LPushOrder != 0 && m.LPushOrder != order {
		return "multi-element LPUSH order is inconsistent between calls", false
	}
	m.LPushOrder = order
	return "", true
}

func join(s []string) string {
	out := ""
	for i, x := range s {
		if i > 0 {
			out += ","
		}
		out += x
	}
	return out
}
