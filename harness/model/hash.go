package model

import (
	"math"
	"strconv"
	"strings"

	"verifharness/resp"
)

func (m *Model) hashAt(key string) (e *Entry, wrong bool) {
	e = m.Get(key)
	if e != nil && e.Type != THash {
		return e, true
	}
	return e, false
}

func (m *Model) stepHash(c chk, name string, a []string) (error, bool) {
	switch name {
	case "HSET", "HSETNX":
		if len(a) < 3 || len(a[1:])%2 != 0 {
			return c.err(), true
		}
		e, wrong := m.hashAt(a[0])
		if wrong {
			// The property speaks of *reading* a key of another type with a hash command; whether HSET
			// replaces a value of another type (the handler does so on purpose) is not asserted.
			if c.rep.IsErr() {
				return nil, true
			}
			m.Soft = true
			m.touch(a[0])
			return nil, true
		}
		nx := name == "HSETNX"
		if nx {
			dupf := map[string]bool{}
			for i := 1; i < len(a); i += 2 {
				if dupf[a[i]] {
					// one field twice in one HSETNX: which value wins is not fixed by anything
					m.Soft = true
					m.touch(a[0])
					return nil, true
				}
				dupf[a[i]] = true
			}
		}
		ne := &Entry{Type: THash, H: map[string]string{}}
		if e != nil {
			ne = e.Clone()
		}
		distinct := map[string]struct{}{}
		created, absent := 0, 0
		for i := 1; i < len(a); i += 2 {
			f, v := a[i], a[i+1]
			if _, seen := distinct[f]; !seen {
				if _, ok := ne.H[f]; !ok {
					absent++
				}
			}
			distinct[f] = struct{}{}
			if _, ok := ne.H[f]; ok && nx {
				if _, first := distinct[f]; first {
					// field existed before the command, or was set earlier in this command
				}
				continue
			}
			if _, ok := ne.H[f]; !ok {
				created++
			}
			ne.H[f] = v
		}
		m.set(a[0], ne)
		// The integer's exact meaning (created vs written fields) is not asserted: 0 ≤ n ≤ distinct fields;
		// for HSETNX n ≤ number of absent fields.
		n, ok := c.rep.AsInt()
		if !ok || c.rep.IsErr() {
			return c.fail("an integer"), true
		}
		hi := int64(len(distinct))
		if nx {
			hi = int64(absent)
		}
		if n < 0 || n > hi {
			return c.fail("integer in [0," + strconv.FormatInt(hi, 10) + "]"), true
		}
		_ = created
		return nil, true
	case "HGET", "HMGET":
		if len(a) < 2 {
			return c.err(), true
		}
		e, wrong := m.hashAt(a[0])
		if wrong {
			return c.err(), true
		}
		want := make([]string, len(a)-1)
		for i, f := range a[1:] {
			want[i] = resp.NilMarker
			if e != nil {
				if v, ok := e.H[f]; ok {
					want[i] = v
				}
			}
		}
		if e == nil && c.rep.IsNil() {
			return nil, true
		}
		if len(want) == 1 {
			// a single-field HGET may answer the bare value
			if _, isList := c.rep.List(); !isList {
				if want[0] == resp.NilMarker {
					return c.nilv(), true
				}
				return c.hval(want[0]), true
			}
		}
		return c.hlist(want), true
	case "HGETALL":
		if len(a) != 1 {
			return c.err(), true
		}
		e, wrong := m.hashAt(a[0])
		if wrong {
			return c.err(), true
		}
		if e == nil || len(e.H) == 0 {
			return c.emptyOrNil(), true
		}
		got, ok := c.rep.Strings()
		if !ok || c.rep.IsErr() || len(got)%2 != 0 || len(got) != 2*len(e.H) {
			return c.fail("the " + strconv.Itoa(len(e.H)) + " field/value pairs of the hash"), true
		}
		seen := map[string]bool{}
		for i := 0; i < len(got); i += 2 {
			v, ok := e.H[got[i]]
			if !ok || seen[got[i]] || !hvalEq(v, got[i+1]) {
				return c.fail("exactly the field/value pairs of the hash"), true
			}
			seen[got[i]] = true
		}
		return nil, true
	case "HKEYS", "HVALS":
		if len(a) != 1 {
			return c.err(), true
		}
		e, wrong := m.hashAt(a[0])
		if wrong {
			return c.err(), true
		}
		if e == nil || len(e.H) == 0 {
			return c.emptyOrNil(), true
		}
		var want []string
		for f, v := range e.H {
			if name == "HKEYS" {
				want = append(want, f)
			} else {
				want = append(want, v)
			}
		}
		if name == "HVALS" {
			return c.hmultiset(want), true
		}
		return c.multiset(want), true
	case "HLEN":
		if len(a) != 1 {
			return c.err(), true
		}
		e, wrong := m.hashAt(a[0])
		if wrong {
			return c.err(), true
		}
		if e == nil {
			return c.integer(0), true
		}
		return c.integer(int64(len(e.H))), true
	case "HEXISTS":
		if len(a) != 2 {
			return c.err(), true
		}
		e, wrong := m.hashAt(a[0])
		if wrong {
			return c.err(), true
		}
		n := int64(0)
		if e != nil {
			if _, ok := e.H[a[1]]; ok {
				n = 1
			}
		}
		return c.integer(n), true
	case "HSTRLEN":
		if len(a) < 2 {
			return c.err(), true
		}
		e, wrong := m.hashAt(a[0])
		if wrong {
			return c.err(), true
		}
		if e == nil {
			// absent key: 0s, empty or nil
			if c.rep.IsNil() {
				return nil, true
			}
			if l, ok := c.rep.List(); ok && len(l) == 0 {
				return nil, true
			}
		}
		want := make([]string, len(a)-1)
		for i, f := range a[1:] {
			n := 0
			if e != nil {
				if strings.HasPrefix(e.H[f], FloatMarker) {
					return nil, true
				}
				n = len(e.H[f])
			}
			want[i] = strconv.Itoa(n)
		}
		if len(want) == 1 {
			if _, isList := c.rep.List(); !isList {
				return c.text(want[0]), true
			}
		}
		return c.list(want), true
	case "HDEL":
		if len(a) < 2 {
			return c.err(), true
		}
		e, wrong := m.hashAt(a[0])
		if wrong {
			return c.err(), true
		}
		n := int64(0)
		if e != nil {
			for _, f := range a[1:] {
				if _, ok := e.H[f]; ok {
					delete(e.H, f)
					n++
				}
			}
			m.touch(a[0])
		}
		return c.integer(n), true
	case "HINCRBY":
		if len(a) != 3 {
			return c.err(), true
		}
		n, ok := parseInt(a[2])
		if !ok {
			return c.err(), true
		}
		e, wrong := m.hashAt(a[0])
		if wrong {
			return c.err(), true
		}
		old := int64(0)
		canon := true
		if e != nil {
			if v, ok := e.H[a[1]]; ok {
				i, isCanon := CanonInt(v)
				if !isCanon {
					i2, err := strconv.ParseInt(strings.TrimSpace(v), 10, 64)
					if err != nil {
						if _, ferr := strconv.ParseFloat(v, 64); ferr == nil {
							// a float-valued field: the description only says "increment by the integer
							// increment"; whether that is refused (Redis) or added is not asserted.
							m.Soft = true
							m.touch(a[0])
							return nil, true
						}
						return c.err(), true
					}
					i, canon = i2, false
				}
				old = i
			}
		}
		nv := old + n
		overflow := (n > 0 && nv < old) || (n < 0 && nv > old)
		ne := &Entry{Type: THash, H: map[string]string{}}
		if e != nil {
			ne = e
		}
		// A field last written by HINCRBYFLOAT is float-typed on the server even when it prints as an
		// integer; adding to it follows float arithmetic. Beyond 2^53 that is inexact but still "adding to
		// a numeric field": a reply within relative 1e-12 of the exact sum is accepted and adopted.
		fsum := float64(old) + float64(n)
		if g, ok := c.rep.AsFloat(); ok && !c.rep.IsErr() && (overflow || math.Abs(fsum) > 1<<53) && FloatEq(g, fsum) {
			txt, _ := c.rep.Text()
			ne.H[a[1]] = txt
			m.set(a[0], ne)
			return nil, true
		}
		if overflow {
			return c.err(), true
		}
		if !canon && c.rep.IsErr() {
			return nil, true
		}
		ne.H[a[1]] = strconv.FormatInt(nv, 10)
		m.set(a[0], ne)
		return c.integer(nv), true
	case "HINCRBYFLOAT":
		if len(a) != 3 {
			return c.err(), true
		}
		x, ok := finiteFloatText(a[2])
		if !ok {
			if _, err := strconv.ParseFloat(a[2], 64); err != nil {
				return c.err(), true
			}
			m.Soft = true
			m.touch(a[0])
			return nil, true
		}
		e, wrong := m.hashAt(a[0])
		if wrong {
			return c.err(), true
		}
		old := 0.0
		if e != nil {
			if v, ok := e.H[a[1]]; ok {
				if strings.HasPrefix(v, FloatMarker) {
					v = v[len(FloatMarker):]
				}
				f, ok := finiteFloatText(v)
				if !ok {
					if _, err := strconv.ParseFloat(v, 64); err != nil {
						return c.err(), true
					}
					m.Soft = true
					m.touch(a[0])
					return nil, true
				}
				old = f
			}
		}
		nv := old + x
		if math.IsInf(nv, 0) || math.IsNaN(nv) {
			m.Soft = true
			m.touch(a[0])
			return nil, true
		}
		ne := &Entry{Type: THash, H: map[string]string{}}
		if e != nil {
			ne = e
		}
		if err := c.number(nv); err != nil {
			ne.H[a[1]] = FloatMarker + strconv.FormatFloat(nv, 'g', -1, 64)
			m.set(a[0], ne)
			return err, true
		}
		txt, _ := c.rep.Text()
		ne.H[a[1]] = txt
		m.set(a[0], ne)
		return nil, true
	case "HRANDFIELD":
		return m.cmdHRandField(c, a), true
	}
	return nil, false
}

// hvalEq compares a model hash value with an observed text (FloatMarker = numeric comparison).
func hvalEq(want, got string) bool {
	if strings.HasPrefix(want, FloatMarker) {
		wf, _ := strconv.ParseFloat(want[len(FloatMarker):], 64)
		gf, err := strconv.ParseFloat(got, 64)
		return err == nil && FloatEq(wf, gf)
	}
	return want == got
}

func (c chk) hval(want string) error {
	got, ok := c.rep.Text()
	if !ok || c.rep.IsErr() || c.rep.IsNil() || !hvalEq(want, got) {
		return c.fail(strconv.Quote(want))
	}
	return nil
}

func (c chk) hlist(want []string) error {
	got, ok := c.rep.Strings()
	if c.rep.IsErr() || !ok || len(got) != len(want) {
		return c.fail("array " + strconv.Quote(strings.Join(want, ",")))
	}
	for i := range got {
		if want[i] == resp.NilMarker || got[i] == resp.NilMarker {
			if want[i] != got[i] {
				return c.fail("array " + strconv.Quote(strings.Join(want, ",")))
			}
			continue
		}
		if !hvalEq(want[i], got[i]) {
			return c.fail("array " + strconv.Quote(strings.Join(want, ",")))
		}
	}
	return nil
}

func (c chk) hmultiset(want []string) error {
	got, ok := c.rep.Strings()
	if c.rep.IsErr() || !ok || len(got) != len(want) {
		return c.fail("multiset " + strconv.Quote(strings.Join(resp.SortedStrings(want), ",")))
	}
	used := make([]bool, len(got))
outer:
	for _, w := range want {
		for i, g := range got {
			if !used[i] && hvalEq(w, g) {
				used[i] = true
				continue outer
			}
		}
		return c.fail("multiset " + strconv.Quote(strings.Join(resp.SortedStrings(want), ",")))
	}
	return nil
}

func (m *Model) cmdHRandField(c chk, a []string) error {
	if len(a) < 1 || len(a) > 3 {
		return c.err()
	}
	count := int64(1)
	hasCount := false
	if len(a) >= 2 {
		n, ok := parseInt(a[1])
		if !ok {
			return c.err()
		}
		count, hasCount = n, true
	}
	withValues := false
	if len(a) == 3 {
		if up(a[2]) != "WITHVALUES" {
			return c.err()
		}
		withValues = true
	}
	e, wrong := m.hashAt(a[0])
	if wrong {
		return c.err()
	}
	if e == nil || len(e.H) == 0 || (hasCount && count == 0) {
		return c.emptyOrNil()
	}
	if count < -1000 || count > 1000 {
		if c.rep.IsErr() {
			return nil
		}
	}
	var got []string
	if l, ok := c.rep.Strings(); ok && !c.rep.IsErr() {
		got = l
	} else if s, ok := c.rep.Text(); ok && !hasCount && !c.rep.IsErr() {
		got = []string{s}
	} else {
		return c.fail("a selection of the hash's fields")
	}
	stride := 1
	if withValues {
		stride = 2
		if len(got)%2 != 0 {
			return c.fail("field/value pairs")
		}
	}
	nsel := int64(len(got) / stride)
	var wantN int64
	if count > 0 {
		wantN = min(count, int64(len(e.H)))
	} else {
		wantN = -count
	}
	if nsel != wantN {
		return c.fail("a selection of " + strconv.FormatInt(wantN, 10) + " fields")
	}
	seen := map[string]bool{}
	for i := 0; i < len(got); i += stride {
		v, ok := e.H[got[i]]
		if !ok {
			return c.fail("only fields of the hash")
		}
		if count > 0 && seen[got[i]] {
			return c.fail("distinct fields for a positive count")
		}
		seen[got[i]] = true
		if withValues && !hvalEq(v, got[i+1]) {
			return c.fail("values matching the fields")
		}
	}
	return nil
}
