package model

import (
	"sort"
	"strconv"
)

func (m *Model) setAt(key string) (e *Entry, wrong bool) {
	e = m.Get(key)
	if e != nil && e.Type != TSet {
		return e, true
	}
	return e, false
}

func setMembers(e *Entry) []string {
	if e == nil {
		return nil
	}
	out := make([]string, 0, len(e.Set))
	for k := range e.Set {
		out = append(out, k)
	}
	sort.Strings(out)
	return out
}

func newSet(members []string) *Entry {
	e := &Entry{Type: TSet, Set: map[string]struct{}{}}
	for _, x := range members {
		e.Set[x] = struct{}{}
	}
	return e
}

// algebra computes op over the operand keys. wrongType reports whether some operand holds another type
// (the statement says the command fails; the SDIFF description says such keys are skipped: both
// outcomes are accepted, the result below treats them as empty).
// interMustFail: for the intersection commands the operands are examined in the order given; an operand of the
// wrong type that comes before the first missing operand makes the command fail (after a missing operand the
// result is known to be empty, and whether later operands are still type-checked is not asserted).
func (m *Model) interMustFail(keys []string) bool {
	for _, k := range keys {
		e, wrong := m.setAt(k)
		if wrong {
			return true
		}
		if e == nil {
			return false
		}
	}
	return false
}

func (m *Model) setAlgebra(op string, keys []string) (res []string, wrongType bool) {
	sets := make([]map[string]struct{}, len(keys))
	for i, k := range keys {
		e, wrong := m.setAt(k)
		if wrong {
			wrongType = true
			sets[i] = map[string]struct{}{}
			continue
		}
		if e == nil {
			sets[i] = map[string]struct{}{}
		} else {
			sets[i] = e.Set
		}
	}
	out := map[string]struct{}{}
	switch op {
	case "UNION":
		for _, s := range sets {
			for x := range s {
				out[x] = struct{}{}
			}
		}
	case "INTER":
		for x := range sets[0] {
			in := true
			for _, s := range sets[1:] {
				if _, ok := s[x]; !ok {
					in = false
					break
				}
			}
			if in {
				out[x] = struct{}{}
			}
		}
	case "DIFF":
		for x := range sets[0] {
			in := false
			for _, s := range sets[1:] {
				if _, ok := s[x]; ok {
					in = true
					break
				}
			}
			if !in {
				out[x] = struct{}{}
			}
		}
	}
	for x := range out {
		res = append(res, x)
	}
	sort.Strings(res)
	return res, wrongType
}

func (m *Model) stepSet(c chk, name string, a []string) (error, bool) {
	switch name {
	case "SADD":
		if len(a) < 2 {
			return c.err(), true
		}
		e, wrong := m.setAt(a[0])
		if wrong {
			return c.err(), true
		}
		ne := newSet(nil)
		if e != nil {
			ne = e
		}
		n := int64(0)
		for _, x := range a[1:] {
			if _, ok := ne.Set[x]; !ok {
				ne.Set[x] = struct{}{}
				n++
			}
		}
		m.set(a[0], ne)
		return c.integer(n), true
	case "SREM":
		if len(a) < 2 {
			return c.err(), true
		}
		e, wrong := m.setAt(a[0])
		if wrong {
			return c.err(), true
		}
		n := int64(0)
		if e != nil {
			for _, x := range a[1:] {
				if _, ok := e.Set[x]; ok {
					delete(e.Set, x)
					n++
				}
			}
			m.touch(a[0])
		}
		return c.integer(n), true
	case "SCARD":
		if len(a) != 1 {
			return c.err(), true
		}
		e, wrong := m.setAt(a[0])
		if wrong {
			return c.err(), true
		}
		if e == nil {
			return c.integer(0), true
		}
		return c.integer(int64(len(e.Set))), true
	case "SISMEMBER":
		if len(a) != 2 {
			return c.err(), true
		}
		e, wrong := m.setAt(a[0])
		if wrong {
			return c.err(), true
		}
		n := int64(0)
		if e != nil {
			if _, ok := e.Set[a[1]]; ok {
				n = 1
			}
		}
		return c.integer(n), true
	case "SMISMEMBER":
		if len(a) < 2 {
			return c.err(), true
		}
		e, wrong := m.setAt(a[0])
		if wrong {
			return c.err(), true
		}
		want := make([]string, len(a)-1)
		for i, x := range a[1:] {
			want[i] = "0"
			if e != nil {
				if _, ok := e.Set[x]; ok {
					want[i] = "1"
				}
			}
		}
		return c.list(want), true
	case "SMEMBERS":
		if len(a) != 1 {
			return c.err(), true
		}
		e, wrong := m.setAt(a[0])
		if wrong {
			return c.err(), true
		}
		if e == nil || len(e.Set) == 0 {
			return c.emptyOrNil(), true
		}
		return c.multiset(setMembers(e)), true
	case "SUNION", "SINTER", "SDIFF":
		if len(a) < 1 {
			return c.err(), true
		}
		res, wrongType := m.setAlgebra(name[1:], a)
		if name == "SINTER" && m.interMustFail(a) {
			return c.err(), true
		}
		if wrongType && c.rep.IsErr() {
			return nil, true
		}
		if name == "SDIFF" && m.Get(a[0]) == nil && c.rep.IsErr() {
			return nil, true // a missing base set: empty by the property, an error by the API comment; both accepted
		}
		if len(res) == 0 {
			return c.emptyOrNil(), true
		}
		return c.multiset(res), true
	case "SINTERCARD":
		if len(a) < 1 {
			return c.err(), true
		}
		keys := a
		limit := int64(0)
		for i, x := range a {
			if up(x) == "LIMIT" && i > 0 {
				if i != len(a)-2 {
					// LIMIT not followed by exactly one argument: a key named "limit" is also conceivable —
					// outside the asserted domain.
					return nil, true
				}
				n, ok := parseInt(a[i+1])
				if !ok || n < 0 {
					return c.err(), true
				}
				limit = n
				keys = a[:i]
				break
			}
		}
		res, wrongType := m.setAlgebra("INTER", keys)
		if m.interMustFail(keys) {
			return c.err(), true
		}
		if wrongType && c.rep.IsErr() {
			return nil, true
		}
		n := int64(len(res))
		if limit > 0 && n > limit {
			n = limit
		}
		return c.integer(n), true
	case "SUNIONSTORE", "SINTERSTORE", "SDIFFSTORE":
		if len(a) < 2 {
			return c.err(), true
		}
		res, wrongType := m.setAlgebra(name[1:len(name)-5], a[1:])
		if name == "SINTERSTORE" && m.interMustFail(a[1:]) {
			return c.err(), true
		}
		if wrongType && c.rep.IsErr() {
			return nil, true
		}
		if name == "SDIFFSTORE" && m.Get(a[1]) == nil && c.rep.IsErr() {
			return nil, true // missing base set: documented error, nothing changes
		}
		m.Get(a[0])
		if len(res) == 0 {
			m.del(a[0])
		} else {
			m.setStore(a[0], newSet(res))
		}
		return c.integer(int64(len(res))), true
	case "SMOVE":
		if len(a) != 3 {
			return c.err(), true
		}
		src, wrong := m.setAt(a[0])
		if wrong {
			return c.err(), true
		}
		dst, wrong2 := m.setAt(a[1])
		if wrong2 {
			if src == nil && !c.rep.IsErr() {
				return c.integer(0), true // nothing to move: 0 is as good as the type error
			}
			return c.err(), true
		}
		if dst == nil && a[0] != a[1] && c.rep.IsErr() {
			return nil, true // destination absent: created (Redis) or "destination is not a set" (documented) — not asserted
		}
		if src == nil {
			if c.rep.IsErr() {
				return nil, true
			}
			return c.integer(0), true
		}
		if _, ok := src.Set[a[2]]; !ok {
			return c.integer(0), true
		}
		delete(src.Set, a[2])
		m.touch(a[0])
		if a[0] == a[1] {
			src.Set[a[2]] = struct{}{}
			return c.integer(1), true
		}
		if dst == nil {
			dst = newSet(nil)
		}
		dst.Set[a[2]] = struct{}{}
		m.set(a[1], dst)
		return c.integer(1), true
	case "SPOP", "SRANDMEMBER":
		if len(a) < 1 || len(a) > 2 {
			return c.err(), true
		}
		hasCount := len(a) == 2
		count := int64(1)
		if hasCount {
			n, ok := parseInt(a[1])
			if !ok {
				return c.err(), true
			}
			count = n
		}
		e, wrong := m.setAt(a[0])
		if wrong {
			return c.err(), true
		}
		if e == nil || len(e.Set) == 0 || (hasCount && count == 0) {
			return c.emptyOrNil(), true
		}
		if name == "SPOP" && count < 0 {
			// negative SPOP count: error (Redis) — not asserted, adopt
			m.Soft = true
			m.touch(a[0])
			return nil, true
		}
		var got []string
		if l, ok := c.rep.Strings(); ok && !c.rep.IsErr() {
			got = l
		} else if s, ok := c.rep.Text(); ok && !hasCount && !c.rep.IsErr() {
			got = []string{s}
		} else {
			return c.fail("a selection of current members"), true
		}
		var wantN int64
		if count > 0 {
			wantN = min(count, int64(len(e.Set)))
		} else {
			wantN = -count
		}
		if int64(len(got)) != wantN {
			return c.fail("a selection of " + strconv.FormatInt(wantN, 10) + " members"), true
		}
		seen := map[string]bool{}
		for _, x := range got {
			if _, ok := e.Set[x]; !ok {
				return c.fail("only current members"), true
			}
			if count > 0 && seen[x] {
				return c.fail("distinct members for a positive count"), true
			}
			seen[x] = true
		}
		if name == "SPOP" {
			for _, x := range got {
				delete(e.Set, x)
			}
			m.touch(a[0])
		}
		return nil, true
	}
	return nil, false
}
