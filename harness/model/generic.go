package model

import (
	"math"
	"strconv"
	"strings"

	"verifharness/resp"
)

// Step validates rep (the server's reply to cmd) against the model's pre-state and applies the
// command's effect to the model. It returns a *Mismatch when the reply contradicts the specification,
// and (nil, false) in `known` when the model has no semantics for the command.
func (m *Model) Step(cmd []string, rep resp.Value) (err error, known bool) {
	m.Touched = m.Touched[:0]
	m.Soft = false
	m.SoftCheck = nil
	if len(cmd) == 0 {
		return nil, false
	}
	c := chk{cmd: cmd, rep: rep}
	a := cmd[1:]
	switch up(cmd[0]) {
	// ---- generic / string ----
	case "SET":
		return m.cmdSet(c, a), true
	case "GET":
		return m.cmdGet(c, a), true
	case "MSET":
		return m.cmdMSet(c, a), true
	case "MGET":
		return m.cmdMGet(c, a), true
	case "DEL":
		return m.cmdDel(c, a), true
	case "INCR":
		return m.cmdIncrBy(c, a, 1, 1), true
	case "DECR":
		return m.cmdIncrBy(c, a, -1, 1), true
	case "INCRBY":
		return m.cmdIncrBy(c, a, 1, 2), true
	case "DECRBY":
		return m.cmdIncrBy(c, a, -1, 2), true
	case "INCRBYFLOAT":
		return m.cmdIncrByFloat(c, a), true
	case "APPEND":
		return m.cmdAppend(c, a), true
	case "SETRANGE":
		return m.cmdSetRange(c, a), true
	case "GETRANGE", "SUBSTR":
		return m.cmdGetRange(c, a), true
	case "STRLEN":
		return m.cmdStrLen(c, a), true
	case "RENAME":
		return m.cmdRename(c, a), true
	case "GETDEL":
		return m.cmdGetDel(c, a), true
	case "GETEX":
		return m.cmdGetEx(c, a), true
	case "TYPE":
		return m.cmdType(c, a), true
	case "FLUSHDB":
		return m.cmdFlush(c, a, false), true
	case "FLUSHALL":
		return m.cmdFlush(c, a, true), true
	case "RANDOMKEY":
		return m.cmdRandomKey(c, a), true
	case "EXPIRE":
		return m.cmdExpire(c, a, 1000, false), true
	case "PEXPIRE":
		return m.cmdExpire(c, a, 1, false), true
	case "EXPIREAT":
		return m.cmdExpire(c, a, 1000, true), true
	case "PEXPIREAT":
		return m.cmdExpire(c, a, 1, true), true
	case "PERSIST":
		return m.cmdPersist(c, a), true
	case "TTL":
		return m.cmdTTL(c, a, 1000, false), true
	case "PTTL":
		return m.cmdTTL(c, a, 1, false), true
	case "EXPIRETIME":
		return m.cmdTTL(c, a, 1000, true), true
	case "PEXPIRETIME":
		return m.cmdTTL(c, a, 1, true), true
	}
	if e, ok := m.stepHash(c, up(cmd[0]), a); ok {
		return e, true
	}
	if e, ok := m.stepList(c, up(cmd[0]), a); ok {
		return e, true
	}
	if e, ok := m.stepSet(c, up(cmd[0]), a); ok {
		return e, true
	}
	if e, ok := m.stepZSet(c, up(cmd[0]), a); ok {
		return e, true
	}
	return nil, false
}

func newString(s string) *Entry { return &Entry{Type: TString, S: s} }

// ---- SET ----

type setOpts struct {
	nx, xx, get bool
	hasExp      bool
	deadline    int64
	bad         bool
}

func (m *Model) parseSetOpts(a []string) setOpts {
	var o setOpts
	for i := 0; i < len(a); i++ {
		switch up(a[i]) {
		case "NX":
			if o.nx || o.xx {
				o.bad = true
			}
			o.nx = true
		case "XX":
			if o.nx || o.xx {
				o.bad = true
			}
			o.xx = true
		case "GET":
			o.get = true
		case "EX", "PX", "EXAT", "PXAT":
			if o.hasExp || i+1 >= len(a) {
				o.bad = true
				return o
			}
			n, ok := parseInt(a[i+1])
			if !ok {
				o.bad = true
				return o
			}
			o.hasExp = true
			switch up(a[i]) {
			case "EX":
				o.deadline = m.NowMs() + n*1000
			case "PX":
				o.deadline = m.NowMs() + n
			case "EXAT":
				o.deadline = n * 1000
			case "PXAT":
				o.deadline = n
			}
			i++
		default:
			o.bad = true
			return o
		}
	}
	return o
}

func (m *Model) cmdSet(c chk, a []string) error {
	if len(a) < 2 {
		return c.err()
	}
	o := m.parseSetOpts(a[2:])
	if o.bad {
		return c.err()
	}
	key, val := a[0], a[1]
	old := m.Get(key)
	if o.get && old != nil && old.Type != TString {
		return c.err()
	}
	cond := true
	if o.nx && old != nil {
		cond = false
	}
	if o.xx && old == nil {
		cond = false
	}
	var rerr error
	switch {
	case o.get:
		// Reply is the previous value (nil if absent); with NX/XX a failed condition may also be an error.
		if old == nil {
			if !cond && c.rep.IsErr() {
				rerr = nil
			} else {
				rerr = c.nilv()
			}
		} else {
			if !cond && c.rep.IsErr() {
				rerr = nil
			} else {
				rerr = c.hval(old.S)
			}
		}
	case !cond:
		rerr = c.nilOrErr()
	default:
		rerr = c.ok()
	}
	if cond {
		e := newString(val)
		if o.hasExp {
			e.Deadline = o.deadline
		}
		m.set(key, e)
	}
	return rerr
}

func (m *Model) cmdGet(c chk, a []string) error {
	if len(a) != 1 {
		return c.err()
	}
	e := m.Get(a[0])
	if e == nil {
		return c.nilv()
	}
	if e.Type != TString {
		return c.err()
	}
	return c.hval(e.S)
}

func (m *Model) cmdMSet(c chk, a []string) error {
	if len(a) == 0 || len(a)%2 != 0 {
		return c.err()
	}
	for i := 0; i < len(a); i += 2 {
		m.set(a[i], newString(a[i+1]))
	}
	return c.ok()
}

func (m *Model) cmdMGet(c chk, a []string) error {
	if len(a) == 0 {
		return c.err()
	}
	want := make([]string, len(a))
	for i, k := range a {
		e := m.Get(k)
		if e == nil || e.Type != TString {
			want[i] = resp.NilMarker
		} else {
			want[i] = e.S
		}
	}
	return c.hlist(want)
}

func (m *Model) cmdDel(c chk, a []string) error {
	if len(a) == 0 {
		return c.err()
	}
	n := int64(0)
	for _, k := range a {
		if m.Get(k) != nil {
			n++
			m.del(k)
		}
	}
	return c.integer(n)
}

// counterOld classifies the old value of a counter command: (value, canonical, numericLooking).
func counterOld(e *Entry) (int64, bool, bool) {
	if e == nil {
		return 0, true, true
	}
	if i, ok := CanonInt(e.S); ok {
		return i, true, true
	}
	// Non-canonical integer text ("007", "+5"): the specification (G4) only says it is preserved as
	// written; whether a counter command accepts it is not asserted.
	if i, err := strconv.ParseInt(strings.TrimSpace(e.S), 10, 64); err == nil {
		return i, false, true
	}
	return 0, false, false
}

func (m *Model) cmdIncrBy(c chk, a []string, sign int64, arity int) error {
	if len(a) != arity {
		return c.err()
	}
	n := int64(1)
	if arity == 2 {
		var ok bool
		if n, ok = parseInt(a[1]); !ok {
			return c.err()
		}
	}
	e := m.Get(a[0])
	if e != nil && e.Type != TString {
		return c.err()
	}
	old, canon, numeric := counterOld(e)
	if !numeric {
		return c.err()
	}
	// new = old + sign*n with overflow detection.
	var nv int64
	overflow := false
	if sign > 0 {
		nv = old + n
		if (n > 0 && nv < old) || (n < 0 && nv > old) {
			overflow = true
		}
	} else {
		nv = old - n
		if (n > 0 && nv > old) || (n < 0 && nv < old) {
			overflow = true
		}
	}
	if overflow {
		return c.err()
	}
	if !canon && c.rep.IsErr() {
		return nil // rejecting non-canonical integer text is acceptable; nothing changes
	}
	ne := newString(strconv.FormatInt(nv, 10))
	if e != nil {
		ne.Deadline = e.Deadline
	}
	m.set(a[0], ne)
	return c.integer(nv)
}

func finiteFloatText(s string) (float64, bool) {
	f, err := strconv.ParseFloat(s, 64)
	if err != nil || math.IsInf(f, 0) || math.IsNaN(f) {
		return 0, false
	}
	return f, true
}

func (m *Model) cmdIncrByFloat(c chk, a []string) error {
	if len(a) != 2 {
		return c.err()
	}
	x, ok := finiteFloatText(a[1])
	if !ok {
		if _, err := strconv.ParseFloat(a[1], 64); err != nil {
			return c.err()
		}
		// inf / nan increments: not asserted beyond consistency (handled by the digest): adopt.
		m.Soft = true
		m.touch(a[0])
		return nil
	}
	e := m.Get(a[0])
	if e != nil && e.Type != TString {
		return c.err()
	}
	old := 0.0
	if e != nil {
		f, ok := finiteFloatText(e.S)
		if !ok {
			if _, err := strconv.ParseFloat(e.S, 64); err != nil {
				return c.err()
			}
			m.Soft = true
			m.touch(a[0])
			return nil
		}
		old = f
	}
	nv := old + x
	if math.IsInf(nv, 0) || math.IsNaN(nv) {
		m.Soft = true
		m.touch(a[0])
		return nil
	}
	if err := c.number(nv); err != nil {
		return err
	}
	// The stored text is the server's rendering of the number (any rendering that parses back to nv).
	txt, _ := c.rep.Text()
	ne := newString(txt)
	if e != nil {
		ne.Deadline = e.Deadline
	}
	m.set(a[0], ne)
	return nil
}

// FloatMarker: a model string that starts with this prefix stands for "any text that parses to this number".
const FloatMarker = "\x00float:"

// numericTyped: SugarDB documents integer and float as value types of their own (TYPE); its string
// commands (APPEND, SETRANGE, GETRANGE, STRLEN) are pinned by the existing tests to reject such values
// as "not a string". For them an error that leaves the value unchanged is accepted as well as the result.
func numericTyped(e *Entry) bool {
	if e == nil || e.Type != TString {
		return false
	}
	if _, ok := CanonInt(e.S); ok {
		return true
	}
	_, ok := CanonFloat(e.S)
	return ok
}

func (m *Model) cmdAppend(c chk, a []string) error {
	if len(a) != 2 {
		return c.err()
	}
	e := m.Get(a[0])
	if e != nil && e.Type != TString {
		return c.err()
	}
	if numericTyped(e) && c.rep.IsErr() {
		return nil
	}
	old := ""
	var dl int64
	if e != nil {
		old, dl = e.S, e.Deadline
	}
	ne := newString(old + a[1])
	ne.Deadline = dl
	m.set(a[0], ne)
	return c.integer(int64(len(ne.S)))
}

func (m *Model) cmdSetRange(c chk, a []string) error {
	if len(a) != 3 {
		return c.err()
	}
	off, ok := parseInt(a[1])
	if !ok {
		return c.err()
	}
	e := m.Get(a[0])
	if e != nil && e.Type != TString {
		return c.err()
	}
	if numericTyped(e) && c.rep.IsErr() {
		return nil
	}
	old := ""
	var dl int64
	if e != nil {
		old, dl = e.S, e.Deadline
	}
	v := a[2]
	// SETRANGE's positional semantics are not given by the property or the docs beyond "overwrites part
	// of a string by offset, creates the key if it doesn't exist"; the existing tests pin: a negative
	// offset prepends, an offset at or beyond the end appends (no padding), otherwise bytes are
	// overwritten in place and the string grows if the new value runs past its end.
	var nv string
	switch {
	case e == nil:
		nv = v
	case off >= int64(len(old)):
		nv = old + v
	case off < 0:
		nv = v + old
	default:
		b := []byte(old)
		for i := 0; i < len(v); i++ {
			p := int(off) + i
			if p < len(b) {
				b[p] = v[i]
			} else {
				b = append(b, v[i])
			}
		}
		nv = string(b)
	}
	ne := newString(nv)
	ne.Deadline = dl
	m.set(a[0], ne)
	return c.integer(int64(len(nv)))
}

func (m *Model) cmdGetRange(c chk, a []string) error {
	if len(a) != 3 {
		return c.err()
	}
	s, ok1 := parseInt(a[1])
	en, ok2 := parseInt(a[2])
	if !ok1 || !ok2 {
		return c.err()
	}
	e := m.Get(a[0])
	if e == nil {
		// Not fixed by P or D: "", nil or an error are all accepted for an absent key.
		if c.rep.IsErr() || c.rep.IsNil() {
			return nil
		}
		return c.text("")
	}
	if e.Type != TString {
		return c.err()
	}
	if numericTyped(e) && c.rep.IsErr() {
		return nil
	}
	n := int64(len(e.S))
	if s < 0 {
		s = n + s
		if s < 0 {
			s = 0
		}
	}
	if en < 0 {
		en = n + en
		if en < 0 {
			// end before the start of the string: empty (Redis); start > end is not asserted
			en = -1
		}
	}
	if en >= n {
		en = n - 1
	}
	if s > en || s >= n {
		// start > end after normalisation: not asserted (API comment describes a reversal), but never an
		// exception: any non-panicking reply is accepted here.
		return nil
	}
	return c.text(e.S[s : en+1])
}

func (m *Model) cmdStrLen(c chk, a []string) error {
	if len(a) != 1 {
		return c.err()
	}
	e := m.Get(a[0])
	if e == nil {
		return c.integer(0)
	}
	if e.Type != TString {
		return c.err()
	}
	if numericTyped(e) && c.rep.IsErr() {
		return nil
	}
	return c.integer(int64(len(e.S)))
}

func (m *Model) cmdRename(c chk, a []string) error {
	if len(a) != 2 {
		return c.err()
	}
	e := m.Get(a[0])
	if e == nil {
		return c.err()
	}
	if a[0] == a[1] {
		return nil // unchanged; reply not asserted
	}
	m.Get(a[1]) // purge if expired
	m.del(a[0])
	m.set(a[1], e)
	return c.ok()
}

func (m *Model) cmdGetDel(c chk, a []string) error {
	if len(a) != 1 {
		return c.err()
	}
	e := m.Get(a[0])
	if e == nil {
		return c.nilv()
	}
	if e.Type != TString {
		return c.err()
	}
	m.del(a[0])
	return c.hval(e.S)
}

func (m *Model) cmdGetEx(c chk, a []string) error {
	if len(a) < 1 {
		return c.err()
	}
	// option parsing
	var setDL bool
	var dl int64
	if m.Get(a[0]) == nil && len(a) <= 3 && c.rep.IsNil() {
		return nil // absent key: nil, whatever the options (an error for malformed options is accepted too)
	}
	switch len(a) {
	case 1:
	case 2:
		if up(a[1]) != "PERSIST" {
			return c.err()
		}
		setDL, dl = true, 0
	case 3:
		n, ok := parseInt(a[2])
		if !ok {
			return c.err()
		}
		setDL = true
		switch up(a[1]) {
		case "EX":
			dl = m.NowMs() + n*1000
		case "PX":
			dl = m.NowMs() + n
		case "EXAT":
			dl = n * 1000
		case "PXAT":
			dl = n
		default:
			return c.err()
		}
	default:
		return c.err()
	}
	e := m.Get(a[0])
	if e == nil {
		return c.nilv()
	}
	if e.Type != TString {
		return c.err()
	}
	if setDL {
		e.Deadline = dl
		m.touch(a[0])
	}
	return c.hval(e.S)
}

func (m *Model) cmdType(c chk, a []string) error {
	if len(a) != 1 {
		return c.err()
	}
	e := m.Get(a[0])
	if e == nil {
		if c.rep.IsErr() {
			return nil
		}
		if s, ok := c.rep.Text(); ok && s == "none" {
			return nil
		}
		return c.fail("an error or \"none\"")
	}
	s, ok := c.rep.Text()
	if !ok || c.rep.IsErr() {
		return c.fail("type " + e.Type)
	}
	if ServerTypeClass(s) != e.Type {
		return c.fail("type " + e.Type)
	}
	return nil
}

// ServerTypeClass maps a TYPE reply to the model's type classes.
func ServerTypeClass(s string) string {
	switch s {
	case "string", "integer", "float":
		return TString
	case "hash", "list", "set", "zset":
		return s
	}
	return "?" + s
}

func (m *Model) cmdFlush(c chk, a []string, all bool) error {
	if len(a) != 0 {
		return c.err()
	}
	if all {
		for i := range m.DBs {
			m.DBs[i] = DB{}
		}
	} else {
		m.DBs[m.Cur] = DB{}
	}
	m.Touched = append(m.Touched, "*")
	return c.ok()
}

func (m *Model) cmdRandomKey(c chk, a []string) error {
	if len(a) != 0 {
		return c.err()
	}
	keys := m.Keys(m.Cur)
	if len(keys) == 0 {
		if c.rep.IsNil() {
			return nil
		}
		if s, ok := c.rep.Text(); ok && s == "" && !c.rep.IsErr() {
			return nil
		}
		return c.fail("nil or empty")
	}
	s, ok := c.rep.Text()
	if !ok || c.rep.IsErr() {
		return c.fail("one of the present keys")
	}
	for _, k := range keys {
		if k == s {
			return nil
		}
	}
	return c.fail("one of the present keys")
}

// ---- expiry family ----

func (m *Model) cmdExpire(c chk, a []string, unit int64, abs bool) error {
	if len(a) < 2 || len(a) > 3 {
		return c.err()
	}
	n, ok := parseInt(a[1])
	if !ok {
		return c.err()
	}
	opt := ""
	if len(a) == 3 {
		opt = up(a[2])
		switch opt {
		case "NX", "XX", "GT", "LT":
		default:
			if m.Get(a[0]) == nil && !c.rep.IsErr() {
				return c.integer(0) // unknown option on a missing key: 0 is as good as the error
			}
			return c.err()
		}
	}
	e := m.Get(a[0])
	if e == nil {
		return c.integer(0)
	}
	var dl int64
	if abs {
		dl = n * unit
	} else {
		dl = m.NowMs() + n*unit
	}
	if dl <= 0 {
		// A deadline at or before the epoch: zero time is the server's "no deadline" marker. Outside the
		// modelled domain; adopt.
		m.Soft = true
		m.touch(a[0])
		return nil
	}
	apply := false
	switch opt {
	case "":
		apply = true
	case "NX":
		apply = e.Deadline == 0
	case "XX":
		apply = e.Deadline != 0
	case "GT":
		if e.Deadline != 0 && dl == e.Deadline {
			m.Soft = true // equality under GT/LT is not asserted
			m.touch(a[0])
			return nil
		}
		apply = e.Deadline != 0 && dl > e.Deadline
	case "LT":
		if e.Deadline != 0 && dl == e.Deadline {
			m.Soft = true
			m.touch(a[0])
			return nil
		}
		apply = e.Deadline == 0 || dl < e.Deadline
	}
	if !apply {
		return c.integer(0)
	}
	e.Deadline = dl
	m.touch(a[0])
	return c.integer(1)
}

func (m *Model) cmdPersist(c chk, a []string) error {
	if len(a) != 1 {
		return c.err()
	}
	e := m.Get(a[0])
	if e == nil || e.Deadline == 0 {
		return c.integer(0)
	}
	e.Deadline = 0
	m.touch(a[0])
	return c.integer(1)
}

func (m *Model) cmdTTL(c chk, a []string, unit int64, abs bool) error {
	if len(a) != 1 {
		return c.err()
	}
	e := m.Get(a[0])
	if e == nil {
		return c.integer(-2)
	}
	if e.Deadline == 0 {
		return c.integer(-1)
	}
	if abs {
		if unit == 1 {
			return c.integer(e.Deadline)
		}
		// seconds: floor or ceil of a sub-second deadline are both accepted
		got, ok := c.rep.AsInt()
		if ok && !c.rep.IsErr() && (got == e.Deadline/1000 || got == (e.Deadline+999)/1000) {
			return nil
		}
		return c.fail("deadline in seconds " + strconv.FormatInt(e.Deadline/1000, 10))
	}
	rem := e.Deadline - m.NowMs()
	if unit == 1 {
		return c.integer(rem)
	}
	got, ok := c.rep.AsInt()
	// The server computes whole-second differences of the two unix-second stamps, which can differ from
	// floor/ceil of the millisecond remainder by one; all of floor, ceil and that figure are accepted.
	alt := e.Deadline/1000 - m.NowMs()/1000
	if ok && !c.rep.IsErr() && (got == rem/1000 || got == (rem+999)/1000 || got == alt) {
		return nil
	}
	return c.fail("remaining seconds ~" + strconv.FormatInt(rem/1000, 10))
}
