package c01

import (
	"testing"

	"verifharness/common"
	"verifharness/evidence"
	"verifharness/gen"
)

var rec *evidence.Recorder
var fam *common.Family

func TestMain(m *testing.M) {
	rec = evidence.New("C01", "exploration",
		"(1) exhaustive enumeration of every command sequence of length ≤ 2 (quick) / ≤ 3 (thorough, sharded) over a fixed alphabet of concrete commands on keys {a,b}; "+
			"(2) rapid state machine (1–30 steps) over SET(+NX|XX|GET|EX|PX|EXAT|PXAT and illegal combinations) GET MSET MGET DEL INCR DECR INCRBY DECRBY INCRBYFLOAT APPEND SETRANGE GETRANGE/SUBSTR STRLEN RENAME GETDEL GETEX TYPE FLUSHDB, "+
			"wrong arities, and seeding writes that put a hash/list/set/sorted set under a key, keys {a,b,c}, value pool with numeric-looking, empty, binary, CRLF and large strings, index arguments biased to the boundaries of the current value. "+
			"After every command the reply is compared by meaning with a sequential reference model and the state of every key (TYPE, full read, PEXPIRETIME) is compared. "+
			"A case is one command sequence; non-trivial = ≥ 2 commands address the same key, or some command was answered with an error; distinct = FNV-64 of the command sequence.",
		"embedded API (ExecuteCommand) is the observation point; wire framing is C12's business",
		"virtual clock (hook H1) held fixed within a case; deadlines are compared exactly",
		"details the property and SugarDB's docs leave open are not asserted (see /verif/SPEC.md): SETRANGE positional semantics follow the existing tests, GETRANGE with start > end and on a missing key, string commands on integer/float-typed values may fail")
	fam = &common.Family{Rec: rec, Keys: gen.Keys, Gen: gen.StringCmd, Alphabet: enumAlphabet, MaxSteps: 30}
	common.Main(m, rec)
}

// enumAlphabet is the fixed alphabet of concrete commands of the exhaustive leg.
func enumAlphabet(thorough bool) [][]string {
	al := [][]string{
		{"SET", "a", "v"}, {"SET", "a", "10"}, {"SET", "a", ""}, {"SET", "b", "w"}, {"SET", "a", "x", "NX"}, {"SET", "a", "y", "XX"},
		{"SET", "a", "z", "GET"}, {"SET", "a", "t", "EX", "100"}, {"SET", "a", "q", "NX", "XX"},
		{"GET", "a"}, {"GET", "b"}, {"MSET", "a", "1", "b", "2"}, {"MSET", "a", "m"}, {"MGET", "a", "b"},
		{"DEL", "a"}, {"DEL", "a", "b", "a"}, {"INCR", "a"}, {"DECR", "a"}, {"INCRBY", "a", "5"}, {"DECRBY", "a", "3"},
		{"INCRBYFLOAT", "a", "0.5"}, {"APPEND", "a", "xy"}, {"APPEND", "b", "1"}, {"SETRANGE", "a", "1", "ZZ"}, {"GETRANGE", "a", "0", "1"},
		{"GETRANGE", "a", "-1", "5"}, {"STRLEN", "a"}, {"RENAME", "a", "b"}, {"RENAME", "b", "a"}, {"RENAME", "a", "a"}, {"GETDEL", "a"},
		{"GETEX", "a"}, {"GETEX", "a", "PERSIST"}, {"GETEX", "a", "EX", "50"}, {"TYPE", "a"}, {"FLUSHDB"},
		{"HSET", "a", "f", "v"}, {"RPUSH", "a", "e1", "e2"}, {"SADD", "b", "m"}, {"ZADD", "a", "1", "m"},
		{"INCR", "b"}, {"EXPIRE", "a", "100"}, {"PERSIST", "a"}, {"TTL", "a"}, {"GET"},
	}
	if thorough {
		al = append(al, [][]string{
			{"SET", "b", "9223372036854775807"}, {"INCRBY", "b", "9223372036854775807"}, {"SET", "a", "a\r\nb"}, {"SET", "a", "3.14"},
			{"SET", "b", "u", "PX", "1500", "GET"}, {"SET", "a", "k", "EX", "x"}, {"MSET", "a", "1", "b"}, {"MGET", "b", "a", "b"},
			{"APPEND", "a", ""}, {"SETRANGE", "b", "0", "Q"}, {"SETRANGE", "a", "-1", "P"}, {"SETRANGE", "a", "50", "R"}, {"GETRANGE", "a", "2", "1"},
			{"GETRANGE", "b", "-100", "100"}, {"SUBSTR", "a", "0", "-1"}, {"STRLEN", "b"}, {"GETDEL", "b"}, {"GETEX", "b", "PXAT", "1893553999000"},
			{"TYPE", "b"}, {"DEL", "b"}, {"DECRBY", "a", "-9223372036854775808"}, {"INCRBYFLOAT", "b", "1e3"}, {"INCRBYFLOAT", "a", "x"},
			{"LPUSH", "b", "e"}, {"HSET", "b", "f", "1"}, {"SADD", "a", "m"}, {"EXPIRE", "b", "50", "NX"}, {"PTTL", "a"}, {"RENAME", "a", "c"},
		}...)
	}
	return al
}

func TestCorpus(t *testing.T) { fam.Corpus(t) }
func TestRandom(t *testing.T) { fam.Random(t) }
func TestEnum(t *testing.T)   { fam.Enum(t) }
func TestReplay(t *testing.T) { fam.Replay(t) }
