package c01

import (
	"fmt"
	"testing"

	"pgregory.net/rapid"

	"verifharness/common"
	"verifharness/engine"
	"verifharness/evidence"
	"verifharness/gen"
	"verifharness/sut"
)

var rec *evidence.Recorder

func TestMain(m *testing.M) {
	rec = evidence.New("C01", "exploration",
		"(1) exhaustive enumeration of every command sequence of length ≤ 2 (quick) / ≤ 3 (thorough, sharded) over a fixed alphabet of concrete commands on keys {a,b}; "+
			"(2) rapid state machine (1–30 steps) over SET(+NX|XX|GET|EX|PX|EXAT|PXAT and illegal combinations) GET MSET MGET DEL INCR DECR INCRBY DECRBY INCRBYFLOAT APPEND SETRANGE GETRANGE/SUBSTR STRLEN RENAME GETDEL GETEX TYPE FLUSHDB, "+
			"wrong arities, and seeding writes that put a hash/list/set/sorted set under a key, keys {a,b,c}, value pool with numeric-looking, empty, binary, CRLF and large strings, index arguments biased to the boundaries of the current value. "+
			"After every command the reply is compared by meaning with a sequential reference model and the state of every key (TYPE, full read, PEXPIRETIME) is compared. "+
			"A case is one command sequence; non-trivial = ≥ 2 commands address the same key, or some command was answered with an error; distinct = FNV-64 of the command sequence.",
		"embedded API (ExecuteCommand) is the observation point; wire framing is C12's business",
		"virtual clock (hook H1) held fixed within a case; deadlines are compared exactly",
		"details the property and SugarDB's docs leave open are not asserted (see /verif/SPEC.md): SETRANGE positional semantics follow the existing tests, GETRANGE with start > end and on a missing key, string commands on integer/float-typed values may fail")
	common.Main(m, rec)
}

func newServer(t interface{ Fatalf(string, ...any) }) *sut.Server {
	s, err := sut.New(sut.Opts{})
	if err != nil {
		t.Fatalf("HARNESS-ERROR: %v", err)
	}
	return s
}

// nontrivial: ≥ 2 commands on the same key, or an invocation that was answered with an error.
func nontrivial(tr []engine.TraceStep) bool {
	seen := map[string]int{}
	for _, s := range tr {
		if s.Op != "cmd" {
			continue
		}
		if len(s.Reply) > 3 && s.Reply[:3] == "ERR" {
			return true
		}
		if len(s.Cmd) < 2 {
			continue
		}
		seen[s.Cmd[1]]++
		if seen[s.Cmd[1]] >= 2 {
			return true
		}
	}
	return false
}

func TestCorpus(t *testing.T) {
	if common.ReplayPath() != "" {
		t.Skip()
	}
	defer common.Verdict(t, rec, "corpus")
	common.RunFindingExamples(t, rec, gen.Keys, sut.Opts{})
}

func TestRandom(t *testing.T) {
	if common.ReplayPath() != "" {
		t.Skip()
	}
	defer common.Verdict(t, rec, "random")
	rapid.Check(t, func(t *rapid.T) {
		s := newServer(t)
		defer func() { s.Close(); s.RemoveDir() }()
		e := engine.New(s, gen.Keys, rec)
		n := rapid.IntRange(1, 30).Draw(t, "steps")
		for i := 0; i < n; i++ {
			cmd := gen.StringCmd(t, e.M, gen.Keys)
			rec.Class("cmd:" + cmd[0])
			if f := e.Exec(cmd...); f != nil {
				common.FailCase(t, rec, "random", nil, e.Trace, f)
			}
		}
		rec.Case(engine.CanonTrace(e.Trace), nontrivial(e.Trace), engine.SampleTrace(e.Trace))
	})
}

// enumAlphabet is the fixed alphabet of concrete commands of the exhaustive leg.
func enumAlphabet(thorough bool) [][]string {
	al := [][]string{
		{"SET", "a", "v"}, {"SET", "a", "10"}, {"SET", "a", ""}, {"SET", "b", "w"}, {"SET", "a", "x", "NX"}, {"SET", "a", "y", "XX"},
		{"SET", "a", "z", "GET"}, {"SET", "a", "t", "EX", "100"}, {"SET", "a", "q", "NX", "XX"},
		{"GET", "a"}, {"GET", "b"}, {"MSET", "a", "1", "b", "2"}, {"MSET", "a", "m"}, {"MGET", "a", "b"},
		{"DEL", "a"}, {"DEL", "a", "b", "a"}, {"INCR", "a"}, {"DECR", "a"}, {"INCRBY", "a", "5"}, {"DECRBY", "a", "3"},
		{"INCRBYFLOAT", "a", "0.5"}, {"APPEND", "a", "xy"}, {"APPEND", "b", "1"}, {"SETRANGE", "a", "1", "ZZ"}, {"GETRANGE", "a", "0", "1"},
		{"GETRANGE", "a", "-1", "5"}, {"STRLEN", "a"}, {"RENAME", "a", "b"}, {"RENAME", "b", "a"}, {"RENAME", "a", "a"}, {"GETDEL", "a"},
		{"GETEX", "a"}, {"GETEX", "a", "PERSIST"}, {"GETEX", "a", "EX", "50"}, {"TYPE", "a"}, {"FLUSHDB"},
		{"HSET", "a", "f", "v"}, {"RPUSH", "a", "e1", "e2"}, {"SADD", "b", "m"}, {"ZADD", "a", "1", "m"},
		{"INCR", "b"}, {"EXPIRE", "a", "100"}, {"PERSIST", "a"}, {"TTL", "a"}, {"GET"},
	}
	if thorough {
		al = append(al, [][]string{
			{"SET", "b", "9223372036854775807"}, {"INCRBY", "b", "9223372036854775807"}, {"SET", "a", "a\r\nb"}, {"SET", "a", "3.14"},
			{"SET", "b", "u", "PX", "1500", "GET"}, {"SET", "a", "k", "EX", "x"}, {"MSET", "a", "1", "b"}, {"MGET", "b", "a", "b"},
			{"APPEND", "a", ""}, {"SETRANGE", "b", "0", "Q"}, {"SETRANGE", "a", "-1", "P"}, {"SETRANGE", "a", "50", "R"}, {"GETRANGE", "a", "2", "1"},
			{"GETRANGE", "b", "-100", "100"}, {"SUBSTR", "a", "0", "-1"}, {"STRLEN", "b"}, {"GETDEL", "b"}, {"GETEX", "b", "PXAT", "1893553999000"},
			{"TYPE", "b"}, {"DEL", "b"}, {"DECRBY", "a", "-9223372036854775808"}, {"INCRBYFLOAT", "b", "1e3"}, {"INCRBYFLOAT", "a", "x"},
			{"LPUSH", "b", "e"}, {"HSET", "b", "f", "1"}, {"SADD", "a", "m"}, {"EXPIRE", "b", "50", "NX"}, {"PTTL", "a"}, {"RENAME", "a", "c"},
		}...)
	}
	return al
}

func TestEnum(t *testing.T) {
	if common.ReplayPath() != "" {
		t.Skip()
	}
	defer common.Verdict(t, rec, "enum")
	thorough := evidence.Thorough()
	al := enumAlphabet(thorough)
	depth := 2
	if thorough {
		depth = 3
	}
	keys := []string{"a", "b", "c"}
	idx := make([]int, depth)
	var total, mine int64
	shard, shards := evidence.Shard(), evidence.Shards()
	var run func(d, length int)
	runSeq := func(length int) {
		total++
		if int(total)%shards != shard {
			return
		}
		mine++
		s := newServer(t)
		e := engine.New(s, keys, rec)
		for i := 0; i < length; i++ {
			if f := e.Exec(al[idx[i]]...); f != nil {
				s.Close()
				s.RemoveDir()
				common.FailCase(t, rec, "enum", map[string]any{"depth": length}, e.Trace, f)
			}
		}
		s.Close()
		s.RemoveDir()
		rec.Case(engine.CanonTrace(e.Trace), nontrivial(e.Trace), engine.SampleTrace(e.Trace))
	}
	run = func(d, length int) {
		if d == length {
			runSeq(length)
			return
		}
		for i := range al {
			idx[d] = i
			run(d+1, length)
		}
	}
	for length := 1; length <= depth; length++ {
		run(0, length)
	}
	rec.Add("enumerated_sequences", mine)
	rec.Set("enum_alphabet", len(al))
	rec.Set("enum_depth", depth)
	t.Logf("enumerated %d of %d sequences (alphabet %d, depth %d)", mine, total, len(al), depth)
}

func TestReplay(t *testing.T) {
	p := common.ReplayPath()
	if p == "" {
		t.Skip()
	}
	r, err := common.LoadReplay(p)
	if err != nil {
		t.Fatalf("HARNESS-ERROR: %v", err)
	}
	s := newServer(t)
	defer func() { s.Close(); s.RemoveDir() }()
	e := engine.New(s, gen.Keys, nil)
	if f := common.ReplayTrace(e, r.Ops); f != nil {
		fmt.Printf("VIOLATION property=C01 replay=%s\n", p)
		t.Fatalf("replay reproduces: %v", f)
	}
}
