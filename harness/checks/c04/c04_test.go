package c04

import (
	"fmt"
	"testing"

	"pgregory.net/rapid"

	"verifharness/common"
	"verifharness/engine"
	"verifharness/evidence"
	"verifharness/gen"
	"verifharness/sut"
)

var rec *evidence.Recorder

func TestMain(m *testing.M) {
	rec = evidence.New("C04", "exploration",
		"rapid state machine (1–40 steps) under a virtual clock (hook H1): writes of every value type, SET EX|PX|EXAT|PXAT (+NX/XX/GET), GETEX (all options), EXPIRE/PEXPIRE/EXPIREAT/PEXPIREAT with none/NX/XX/GT/LT and durations from a boundary pool (negative, 0, 1 ms …), PERSIST, "+
			"the TTL/PTTL/EXPIRETIME/PEXPIRETIME readers, observers of every family (GET MGET TYPE STRLEN HGET HLEN LLEN LRANGE SCARD SISMEMBER ZCARD ZSCORE …), existence-conditional and in-place writers (SET NX/XX, HSETNX, LPUSHX, RENAME, APPEND, INCR, …), "+
			"an action that advances the clock to 1 ms before / after some key's deadline or by a random amount, and (in the configurations with a background sampler) an action that runs one sampler pass (hook H2). Configurations: noeviction (lazy expiry only) and each eviction policy with no memory limit and sample sizes 1/5/20. "+
			"After every step the reply is compared by meaning with a reference model that has deadlines, and TYPE / full read / PEXPIRETIME of every key are compared. A case is one operation sequence; non-trivial = the clock passes at least one deadline and that key is observed afterwards, or an expiry option (NX/XX/GT/LT/PERSIST) is applied to a key that has a deadline; distinct = FNV-64 of the operation sequence.",
		"the harness owns the clock (hook H1) and the sampler ticks (hook H2); the real ticker cadence is not exercised",
		"at now == deadline both outcomes are allowed by the property, so the generator never lands exactly on a deadline",
		"TTL in seconds: floor, ceil and the difference of the two unix-second stamps are all accepted for sub-second remainders")
	common.Main(m, rec)
}

type config struct {
	Policy string
	Sample uint
}

func configs() []config {
	cs := []config{{"noeviction", 0}}
	if evidence.Thorough() {
		for _, p := range []string{"allkeys-lfu", "allkeys-lru", "allkeys-random", "volatile-lfu", "volatile-lru", "volatile-random"} {
			for _, s := range []uint{1, 5, 20} {
				cs = append(cs, config{p, s})
			}
		}
	} else {
		cs = append(cs, config{"allkeys-lru", 5}, config{"volatile-lfu", 1}, config{"volatile-random", 20})
	}
	return cs
}

func nontrivial(tr []engine.TraceStep) bool {
	advanced := false
	for _, s := range tr {
		if s.Op == "advance" {
			advanced = true
		}
		if s.Op == "cmd" && advanced && len(s.Cmd) > 1 {
			return true
		}
		if s.Op == "cmd" && len(s.Cmd) == 4 {
			switch s.Cmd[0] {
			case "EXPIRE", "PEXPIRE", "EXPIREAT", "PEXPIREAT":
				return true
			}
		}
	}
	return false
}

func run(t *rapid.T, cfg config, leg string) {
	s, err := sut.New(sut.Opts{Policy: cfg.Policy, EvictionSample: cfg.Sample})
	if err != nil {
		t.Fatalf("HARNESS-ERROR: %v", err)
	}
	defer func() { s.Close(); s.RemoveDir() }()
	e := engine.New(s, gen.Keys, rec)
	n := rapid.IntRange(1, 40).Draw(t, "steps")
	conf := map[string]any{"policy": cfg.Policy, "sample": cfg.Sample}
	var justExpired []string // keys whose deadline the last clock advance passed and which nothing has touched since
	for i := 0; i < n; i++ {
		op := gen.ExpiryCmd(t, e.M, gen.Keys, cfg.Policy != "noeviction")
		if len(justExpired) > 0 && op.Advance == 0 && rapid.IntRange(0, 2).Draw(t, "overwrite") > 0 {
			// a write that does not read its destination first, onto a key that has expired but is still stored
			op = gen.ExpiryOp{Cmd: gen.OverwriteCmd(t, e.M, rapid.SampledFrom(justExpired).Draw(t, "dest"), gen.Keys)}
			rec.Class("overwrite of an expired, untouched key")
		}
		justExpired = nil
		switch {
		case op.Advance != 0:
			now := e.M.NowMs()
			for _, k := range gen.Keys {
				if en := e.M.Peek(e.M.Cur, k); en != nil && en.Deadline > now && en.Deadline < now+op.Advance {
					justExpired = append(justExpired, k)
				}
			}
			e.Advance(op.Advance)
			rec.Class("advance")
		case op.Tick:
			rec.Class("sampler-tick")
			if f := e.Tick(); f != nil {
				common.FailCase(t, rec, leg, conf, e.Trace, f)
			}
		default:
			rec.Class("cmd:" + op.Cmd[0])
			if f := e.Exec(op.Cmd...); f != nil {
				common.FailCase(t, rec, leg, conf, e.Trace, f)
			}
		}
	}
	rec.Case(fmt.Sprintf("%s/%d|", cfg.Policy, cfg.Sample)+engine.CanonTrace(e.Trace), nontrivial(e.Trace), map[string]any{"config": conf, "ops": engine.SampleTrace(e.Trace)})
}

func TestCorpus(t *testing.T) {
	if common.ReplayPath() != "" {
		t.Skip()
	}
	defer common.Verdict(t, rec, "corpus")
	common.RunFindingExamples(t, rec, gen.Keys, sut.Opts{})
}

func TestRandom(t *testing.T) {
	if common.ReplayPath() != "" {
		t.Skip()
	}
	defer common.Verdict(t, rec, "random")
	cs := configs()
	rapid.Check(t, func(t *rapid.T) {
		cfg := cs[rapid.IntRange(0, len(cs)-1).Draw(t, "config")]
		run(t, cfg, "random")
	})
}

func TestReplay(t *testing.T) {
	p := common.ReplayPath()
	if p == "" {
		t.Skip()
	}
	r, err := common.LoadReplay(p)
	if err != nil {
		t.Fatalf("HARNESS-ERROR: %v", err)
	}
	policy, _ := r.Config["policy"].(string)
	sample, _ := r.Config["sample"].(float64)
	s, err := sut.New(sut.Opts{Policy: policy, EvictionSample: uint(sample)})
	if err != nil {
		t.Fatalf("HARNESS-ERROR: %v", err)
	}
	defer func() { s.Close(); s.RemoveDir() }()
	e := engine.New(s, gen.Keys, nil)
	if f := common.ReplayTrace(e, r.Ops); f != nil {
		fmt.Printf("VIOLATION property=C04 replay=%s\n", p)
		t.Fatalf("replay reproduces: %v", f)
	}
}
