package c20

import (
	"fmt"
	"os"
	"strconv"
	"testing"

	"pgregory.net/rapid"

	"github.com/echovault/sugardb/verifhook"

	"verifharness/common"
	"verifharness/engine"
	"verifharness/evidence"
	"verifharness/gen"
	"verifharness/sut"
)

var rec *evidence.Recorder

var keys = []string{"a", "b", "c"}
var dbUniverse = []int{0, 1, 2, 9, 10, 15, 123}

func TestMain(m *testing.M) {
	rec = evidence.New("C20", "exploration",
		"rapid state machine (2–35 steps) over three actors on one in-process server — two TCP connections and the embedded caller —: data commands of all five families (C01/C14–C17 grammars) issued by a drawn actor in that actor's selected database, SELECT n (TCP) / SelectDB(n) (embedded) with n ∈ {0,1,2,9,10,15,123} and invalid indices, "+
			"SWAPDB i j, FLUSHDB, FLUSHALL. Oracle: reference model db → keyspace plus the selected database per actor (SWAPDB re-points TCP connections only, as documented); after every step the reply is compared with the model and TYPE / full read / PEXPIRETIME of every key of every database of the universe are compared (non-interference: only the addressed database may change). "+
			"A case is one history; non-trivial = at least two databases are non-empty at some point and a command runs in one of them, or a database index of two or more digits is used, or a SWAPDB is followed by a command of a TCP actor; distinct = FNV-64 of the history.",
		"observation uses the embedded API with SelectDB on every database of the universe after every step",
		"one case in three runs with an append-only log and may restart the server (clean shutdown, AOF restore) at any step: the reference model is unchanged by a restart, actors are back in database 0",
		"eviction bookkeeping, snapshot restore and replication are covered by C08/C03/C07, not here")
	common.Main(m, rec)
}

type world struct {
	persist bool   // the server keeps an append-only log and the history may restart it
	dir     string // data directory (persist only)
	s       *sut.Server
	conns   []*sut.Conn
	sel     []int // selected db per actor: 0,1 = TCP, 2 = embedded
	e       *engine.Engine
	embDB   int
}

func newWorld(t interface{ Fatalf(string, ...any) }, persist bool) *world {
	w := &world{sel: []int{0, 0, 0}, persist: persist}
	if persist {
		w.dir = sut.NewScratchDir("c20")
	}
	w.start(t, false, nil)
	w.e = engine.New(w.s, keys, rec)
	w.e.CompareAll = true
	w.e.DBs = dbUniverse
	w.e.ObserverDB = &w.embDB
	return w
}

// start (re)starts the server and the two TCP connections.
func (w *world) start(t interface{ Fatalf(string, ...any) }, restore bool, clock *verifhook.VirtualClock) {
	port := sut.FreePort()
	o := sut.Opts{Port: port, Clock: clock}
	if w.persist {
		o.DataDir, o.AOFSync, o.RestoreAOF = w.dir, "no", restore
	}
	s, err := sut.New(o)
	if err != nil {
		t.Fatalf("HARNESS-ERROR: %v", err)
	}
	w.s = s
	w.conns = nil
	for i := 0; i < 2; i++ {
		c, err := sut.Dial(port)
		if err != nil {
			t.Fatalf("HARNESS-ERROR: dial: %v", err)
		}
		// a round trip makes sure the server has registered the connection before anything else happens
		if r := c.Do("PING"); r.Val.IsErr() {
			t.Fatalf("HARNESS-ERROR: ping: %s", r.String())
		}
		w.conns = append(w.conns, c)
	}
}

type fatalPanic struct{}

func (fatalPanic) Fatalf(format string, a ...any) { panic(fmt.Sprintf(format, a...)) }

func (w *world) close() {
	for _, c := range w.conns {
		c.Close()
	}
	w.s.Close()
	w.s.RemoveDir()
	if w.dir != "" {
		_ = os.RemoveAll(w.dir)
	}
}

// via points the engine at an actor.
func (w *world) via(actor int) {
	w.e.M.Cur = w.sel[actor]
	if actor < 2 {
		c := w.conns[actor]
		w.e.Run = func(args ...string) sut.Reply { return c.Do(args...) }
	} else {
		w.e.Run = nil
	}
}

func (w *world) exec(actor int, cmd ...string) *engine.Failure {
	w.via(actor)
	w.e.Trace = append(w.e.Trace, engine.TraceStep{Op: "actor", DB: actor})
	return w.e.Exec(cmd...)
}

type action struct {
	Actor int      `json:"actor"`
	Kind  string   `json:"kind"`
	Cmd   []string `json:"cmd,omitempty"`
	DB    int      `json:"db,omitempty"`
}

func (w *world) apply(a action) (*engine.Failure, string) {
	switch a.Kind {
	case "cmd":
		return w.exec(a.Actor, a.Cmd...), ""
	case "select":
		if a.Actor == 2 {
			err := w.s.Select(a.DB)
			w.e.Trace = append(w.e.Trace, engine.TraceStep{Op: "embedded-select", DB: a.DB})
			if a.DB < 0 {
				if err == nil {
					return nil, "SelectDB accepted a negative index"
				}
				return nil, ""
			}
			if err != nil {
				return nil, "SelectDB failed: " + err.Error()
			}
			w.sel[2], w.embDB = a.DB, a.DB
			return w.exec(2, "TYPE", "a"), ""
		}
		f := w.exec(a.Actor, a.Cmd...)
		if f != nil {
			return f, ""
		}
		rep := w.e.Trace[len(w.e.Trace)-1].Reply
		if n, err := strconv.Atoi(a.Cmd[1]); len(a.Cmd) == 2 && err == nil && n >= 0 {
			if rep != `+"OK"` {
				return nil, fmt.Sprintf("SELECT %d answered %s", n, rep)
			}
			w.sel[a.Actor] = n
		} else if len(rep) < 3 || rep[:3] != "ERR" {
			return nil, fmt.Sprintf("invalid %q answered %s instead of an error", a.Cmd, rep)
		}
		return nil, ""
	case "restart":
		// clean shutdown and restart from the append-only log: every key is still in its database; connections
		// and the embedded caller start in database 0 again
		if !w.persist {
			return nil, ""
		}
		for _, c := range w.conns {
			c.Close()
		}
		clk := w.s.Clock
		w.s.Close()
		w.start(fatalPanic{}, true, clk)
		w.e.S = w.s
		w.sel, w.embDB = []int{0, 0, 0}, 0
		w.e.Trace = append(w.e.Trace, engine.TraceStep{Op: "restart"})
		return w.exec(2, "TYPE", "a"), ""
	case "swapdb":
		f := w.exec(a.Actor, a.Cmd...)
		if f != nil {
			return f, ""
		}
		rep := w.e.Trace[len(w.e.Trace)-1].Reply
		i, e1 := strconv.Atoi(a.Cmd[1])
		j, e2 := strconv.Atoi(a.Cmd[2])
		if e1 == nil && e2 == nil && i >= 0 && j >= 0 {
			if rep != `+"OK"` {
				return nil, fmt.Sprintf("%q answered %s", a.Cmd, rep)
			}
			for c := 0; c < 2; c++ {
				switch w.sel[c] {
				case i:
					w.sel[c] = j
				case j:
					w.sel[c] = i
				}
			}
		}
		return nil, ""
	}
	return nil, ""
}

func draw(t *rapid.T, w *world) action {
	actor := rapid.IntRange(0, 2).Draw(t, "actor")
	idx := func(l string) int { return rapid.SampledFrom(dbUniverse).Draw(t, l) }
	if w.persist && rapid.IntRange(0, 11).Draw(t, "restart") == 0 {
		return action{Actor: 2, Kind: "restart"}
	}
	switch rapid.IntRange(0, 19).Draw(t, "kind") {
	case 0, 1, 2, 3:
		n := idx("db")
		if actor == 2 {
			if rapid.IntRange(0, 9).Draw(t, "neg") == 0 {
				n = -1
			}
			return action{Actor: 2, Kind: "select", DB: n}
		}
		if rapid.IntRange(0, 9).Draw(t, "bad") == 0 {
			return action{Actor: actor, Kind: "select", Cmd: []string{"SELECT", rapid.SampledFrom([]string{"-1", "x", "", "1.5"}).Draw(t, "badidx")}}
		}
		return action{Actor: actor, Kind: "select", Cmd: []string{"SELECT", strconv.Itoa(n)}}
	case 4, 5:
		return action{Actor: actor, Kind: "swapdb", Cmd: []string{"SWAPDB", strconv.Itoa(idx("i")), strconv.Itoa(idx("j"))}}
	case 6:
		return action{Actor: actor, Kind: "cmd", Cmd: []string{"FLUSHDB"}}
	case 7:
		if rapid.IntRange(0, 2).Draw(t, "fa") == 0 {
			return action{Actor: actor, Kind: "cmd", Cmd: []string{"FLUSHALL"}}
		}
		return action{Actor: actor, Kind: "cmd", Cmd: []string{"FLUSHDB"}}
	case 8, 9, 10, 11, 12:
		w.e.M.Cur = w.sel[actor]
		return action{Actor: actor, Kind: "cmd", Cmd: gen.WriterCmd(t, w.e.M, keys)}
	default:
		w.e.M.Cur = w.sel[actor]
		cmd := gen.AnyFamilyCmd(t, w.e.M, keys)
		return action{Actor: actor, Kind: "cmd", Cmd: sanitize(cmd)}
	}
}

// sanitize keeps values that frame cleanly over TCP (CR/LF in replies is C12's finding, not C20's subject).
func sanitize(cmd []string) []string {
	out := make([]string, len(cmd))
	for i, a := range cmd {
		b := []byte(a)
		for j, ch := range b {
			if ch == '\r' || ch == '\n' {
				b[j] = '_'
			}
		}
		out[i] = string(b)
	}
	return out
}

func runCase(t *rapid.T) {
	persist := rapid.IntRange(0, 2).Draw(t, "persist") == 0
	w := newWorld(t, persist)
	defer w.close()
	n := rapid.IntRange(2, 35).Draw(t, "steps")
	nontrivial := false
	var acts []action
	for i := 0; i < n; i++ {
		a := draw(t, w)
		if a.Kind == "cmd" {
			a.Cmd = sanitize(a.Cmd)
		}
		acts = append(acts, a)
		rec.Class("kind:" + a.Kind)
		f, msg := w.apply(a)
		if f != nil {
			common.FailCase(t, rec, "random", map[string]any{"actions": acts, "persist": persist}, w.e.Trace, f)
		}
		if msg != "" {
			common.FailCase(t, rec, "random", map[string]any{"actions": acts, "persist": persist}, w.e.Trace, fmt.Errorf("%s", msg))
		}
		nonEmpty := 0
		for _, db := range dbUniverse {
			if len(w.e.M.Keys(db)) > 0 {
				nonEmpty++
			}
		}
		if nonEmpty >= 2 || (a.Kind == "select" && a.DB >= 10) || a.Kind == "swapdb" || (a.Kind == "restart" && nonEmpty >= 1) {
			nontrivial = true
		}
	}
	canon := ""
	sample := []string{}
	for _, a := range acts {
		canon += fmt.Sprintf("%d|%s|%d|%q\x1e", a.Actor, a.Kind, a.DB, a.Cmd)
		who := []string{"tcp0", "tcp1", "embedded"}[a.Actor]
		if a.Kind == "restart" {
			sample = append(sample, "restart from the append-only log")
		} else if a.Kind == "select" && a.Actor == 2 {
			sample = append(sample, fmt.Sprintf("%s SelectDB(%d)", who, a.DB))
		} else {
			sample = append(sample, fmt.Sprintf("%s %q", who, a.Cmd))
		}
	}
	rec.Case(canon, nontrivial, sample)
}

func TestRandom(t *testing.T) {
	if common.ReplayPath() != "" {
		t.Skip()
	}
	defer common.Verdict(t, rec, "random")
	rapid.Check(t, runCase)
}

func TestReplay(t *testing.T) {
	p := common.ReplayPath()
	if p == "" {
		t.Skip()
	}
	r, err := common.LoadReplay(p)
	if err != nil {
		t.Fatalf("HARNESS-ERROR: %v", err)
	}
	raw, _ := r.Config["actions"].([]any)
	persist, _ := r.Config["persist"].(bool)
	w := newWorld(t, persist)
	defer w.close()
	for _, x := range raw {
		mp := x.(map[string]any)
		a := action{Kind: mp["kind"].(string)}
		if v, ok := mp["actor"].(float64); ok {
			a.Actor = int(v)
		}
		if v, ok := mp["db"].(float64); ok {
			a.DB = int(v)
		}
		if v, ok := mp["cmd"].([]any); ok {
			for _, s := range v {
				a.Cmd = append(a.Cmd, s.(string))
			}
		}
		f, msg := w.apply(a)
		if f != nil || msg != "" {
			fmt.Printf("VIOLATION property=C20 replay=%s\n", p)
			t.Fatalf("replay reproduces: %v %s", f, msg)
		}
	}
}
