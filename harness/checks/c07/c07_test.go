package c07

import (
	"encoding/json"
	"fmt"
	"os"
	"sort"
	"strings"
	"testing"
	"time"

	"pgregory.net/rapid"

	"verifharness/common"
	"verifharness/engine"
	"verifharness/evidence"
	"verifharness/findings"
	"verifharness/gen"
	"verifharness/model"
	"verifharness/sut"
)

var rec *evidence.Recorder

var keys = []string{"a", "b", "c"}
var dbs = []int{0, 1, 7}

func TestMain(m *testing.M) {
	rec = evidence.New("C07", "exploration",
		"Leg A (rapid, one 3-node in-process raft cluster reused across cases, FLUSHALL + convergence check between cases): workloads of 4–25 write commands of all five families (C01/C14–C17 grammars, databases {0,1,7}) sent to the leader through its embedded API, executed side by side with the sequential reference model — every leader reply and the leader's dataset are compared after every command (read-your-writes on the leader) — then the harness waits for quiescence (all nodes' digests equal and unchanged for three polls, bounded) and requires every node to hold the leader's dataset in every database. "+
			"Leg B (rapid, same cluster): the same kind of workload with the entry point drawn per command among the leader (TCP with SELECT, or embedded), a follower with forwarding enabled and a follower with forwarding disabled; oracle: the non-forwarding follower answers with an error and a key only it was asked to write never appears anywhere; after quiescence all nodes hold identical datasets. "+
			"Leg C (rapid, two independent single-node clusters): the same generated command log applied to both must give equal datasets (replay determinism). Leg D: a node that joins after a workload converges to the same dataset. "+
			"A case is one workload; non-trivial = ≥ 5 writes of ≥ 2 value types, or a database other than 0, or a non-leader entry point; distinct = FNV-64 of the workload.",
		"quiescence is decided by polling real raft timers: a bound that is exceeded with the nodes still changing is reported as inconclusive, nodes that are stable but different are a violation",
		"no network partitions or message loss (no transport hook); leadership changes are not injected in this build",
		"the nodes share one virtual clock that stands still, so relative expiries evaluate identically on every node",
		"legs E and F: a raft snapshot on the leader (SAVE) between two batches followed by a late joiner; a cluster with a memory limit on every node (noeviction) whose collections grow in place past the limit")
	common.Main(m, rec)
}

var cluster *sut.Cluster

func getCluster(t interface{ Fatalf(string, ...any) }) *sut.Cluster {
	if cluster != nil {
		return cluster
	}
	c, err := sut.NewCluster(3, func(i int) bool { return i == 1 })
	if err != nil {
		t.Fatalf("HARNESS-ERROR: cluster: %v", err)
	}
	cluster = c
	return c
}

func digests(c *sut.Cluster) []sut.Digest {
	out := make([]sut.Digest, len(c.Nodes))
	for i, n := range c.Nodes {
		out[i] = n.TakeDigest(dbs, keys)
	}
	return out
}

// quiesce waits until all nodes agree and nothing changes for three polls.
// Returns (converged, stableButDifferent, digests).
var markerSeq int

func quiesce(c *sut.Cluster) (bool, bool, []sut.Digest) {
	// A marker written through the leader is applied by every node after everything the leader
	// acknowledged before it (raft applies the log in order): once every node has it, all earlier
	// entries are applied everywhere.
	if l := c.Leader(); l != nil {
		markerSeq++
		mk := fmt.Sprintf("%d", markerSeq)
		cur := 0
		_ = l.Select(15)
		l.Do("SET", "zz-quiesce", mk)
		_ = l.Select(cur)
		ok := sut.WaitFor(10*time.Second, func() bool {
			for _, n := range c.Nodes {
				_ = n.Select(15)
				r := n.Do("GET", "zz-quiesce")
				_ = n.Select(0)
				if s, _ := r.Val.Text(); s != mk {
					return false
				}
			}
			return true
		})
		if !ok {
			return false, false, digests(c)
		}
	}
	var last string
	stable := 0
	deadline := time.Now().Add(12 * time.Second)
	var ds []sut.Digest
	for time.Now().Before(deadline) {
		ds = digests(c)
		all := ""
		equal := true
		for i, d := range ds {
			all += d.Canon() + "\n"
			if i > 0 && d.Diff(ds[0]) != "" {
				equal = false
			}
		}
		if all == last {
			stable++
		} else {
			stable = 0
			last = all
		}
		if stable >= 3 {
			return equal, !equal, ds
		}
		time.Sleep(25 * time.Millisecond)
	}
	return false, false, ds
}

func reset(t interface{ Fatalf(string, ...any) }, c *sut.Cluster, leg string) bool {
	l := c.Leader()
	if l == nil {
		t.Fatalf("HARNESS-ERROR: no leader")
	}
	flushedButKept := ""
	for attempt := 0; attempt < 4; attempt++ {
		_ = l.Select(0)
		r := l.Do("FLUSHALL")
		for _, n := range c.Nodes {
			_ = n.Select(0)
		}
		ok, diff, ds := quiesce(c)
		empty := ok
		flushedButKept = ""
		for i, d := range ds {
			if len(d) != 0 {
				empty = false
				// the leader acknowledged FLUSHALL, a marker written after it has been applied by every node, the
				// nodes are stable, the leader is empty, and this node still holds keys
				if diff && !r.Val.IsErr() && len(ds[0]) == 0 && i > 0 {
					flushedButKept = fmt.Sprintf("%s still holds %s", c.Nodes[i].ID, d.Canon())
				}
			}
		}
		if empty {
			return true
		}
		time.Sleep(300 * time.Millisecond) // writes forwarded by the previous case may still be arriving
	}
	if flushedButKept != "" && c.Nodes[0] == l {
		failCase(t, leg, []op{{Entry: "leader", Cmd: []string{"FLUSHALL"}}}, "the leader acknowledged FLUSHALL four times and a marker written after each has reached every node, but %s", flushedButKept)
	}
	return false
}

type op struct {
	Entry string   `json:"entry"` // leader | leader-tcp | forward | noforward
	DB    int      `json:"db"`
	Cmd   []string `json:"cmd"`
}

func sanitize(cmd []string) []string {
	out := make([]string, len(cmd))
	for i, a := range cmd {
		out[i] = strings.NewReplacer("\r", "_", "\n", "_").Replace(a)
	}
	return out
}

var randomCmds = map[string]bool{"SPOP": true}

func genCmd(t *rapid.T, m *model.Model) []string {
	for {
		var c []string
		if rapid.IntRange(0, 2).Draw(t, "src") == 0 {
			c = gen.AnyFamilyCmd(t, m, keys)
		} else {
			c = gen.WriterCmd(t, m, keys)
		}
		if randomCmds[strings.ToUpper(c[0])] && findings.IsOpen("F-C07-spop-diverges") {
			rec.Excluded("F-C07-spop-diverges")
			continue
		}
		if c[0] == "FLUSHDB" {
			continue
		}
		return sanitize(c)
	}
}

func nontrivialOps(ops []op) bool {
	types := map[string]bool{}
	for _, o := range ops {
		if o.DB != 0 || o.Entry != "leader" {
			return true
		}
		types[o.Cmd[0][:1]] = true
	}
	return len(ops) >= 5 && len(types) >= 2
}

func failCase(t interface{ Fatalf(string, ...any) }, leg string, ops []op, format string, a ...any) {
	msg := fmt.Sprintf(format, a...)
	b, _ := json.MarshalIndent(map[string]any{"property": "C07", "leg": leg, "ops": ops, "failure": msg}, "", " ")
	p := engine.WriteRaw("C07", leg, b)
	t.Fatalf("violation (replay %s): %s", p, msg)
}

// Leg A
func legA(t *rapid.T, replay []op) {
	c := getCluster(t)
	if !reset(t, c, "A") {
		fmt.Println("HARNESS-ERROR: cluster did not return to an empty, converged state (inconclusive)")
		t.Skip()
	}
	l := c.Leader()
	e := engine.New(l.Server, keys, rec)
	e.CompareAll = true
	e.DBs = dbs
	obs := 0
	e.ObserverDB = &obs
	var ops []op
	n := len(replay)
	if replay == nil {
		n = rapid.IntRange(4, 25).Draw(t, "n")
	}
	for i := 0; i < n; i++ {
		var o op
		if replay != nil {
			o = replay[i]
		} else {
			o = op{Entry: "leader", DB: rapid.SampledFrom([]int{0, 0, 1, 7}).Draw(t, "db")}
			e.M.Cur = o.DB
			o.Cmd = genCmd(t, e.M)
		}
		ops = append(ops, o)
		_ = l.Select(o.DB)
		obs = o.DB
		e.M.Cur = o.DB
		if f := e.Exec(o.Cmd...); f != nil {
			failCase(t, "A", ops, "on the leader: %v", f)
		}
	}
	ok, diff, ds := quiesce(c)
	if diff {
		failCase(t, "A", ops, "the nodes are stable but hold different datasets: %s", describe(c, ds))
	}
	if !ok {
		fmt.Println("HARNESS-ERROR: replication did not quiesce within the bound (inconclusive)")
		return
	}
	canon, _ := json.Marshal(ops)
	rec.Case("A|"+string(canon), nontrivialOps(ops), map[string]any{"leg": "A (leader + model, then replicas)", "ops": render(ops), "nodes_equal": len(ds)})
}

func describe(c *sut.Cluster, ds []sut.Digest) string {
	var b strings.Builder
	for i, d := range ds {
		fmt.Fprintf(&b, "%s(%s)=%s; ", c.Nodes[i].ID, c.Nodes[i].DB.GetServerInfo().Role, d.Canon())
	}
	return b.String()
}

func render(ops []op) []string {
	out := []string{}
	for _, o := range ops {
		out = append(out, fmt.Sprintf("%s db%d %q", o.Entry, o.DB, o.Cmd))
	}
	return out
}

// Leg B
func legB(t *rapid.T, replay []op) {
	c := getCluster(t)
	if !reset(t, c, "B") {
		fmt.Println("HARNESS-ERROR: cluster did not return to an empty, converged state (inconclusive)")
		t.Skip()
	}
	l := c.Leader()
	var fwd, nofwd *sut.Node
	for _, n := range c.Nodes {
		if n == l {
			continue
		}
		if n.Forward {
			fwd = n
		} else {
			nofwd = n
		}
	}
	conn, err := sut.Dial(l.Port)
	if err != nil {
		t.Fatalf("HARNESS-ERROR: %v", err)
	}
	defer conn.Close()
	conn.Do("PING")
	hint := model.New(func() int64 { return c.Clock.Now().UnixMilli() })
	type tracer struct {
		key string
		db  int
	}
	var tracers []tracer
	var ops []op
	n := len(replay)
	if replay == nil {
		n = rapid.IntRange(4, 25).Draw(t, "n")
	}
	for i := 0; i < n; i++ {
		var o op
		if replay != nil {
			o = replay[i]
		} else {
			o = op{Entry: rapid.SampledFrom([]string{"leader", "leader-tcp", "leader-tcp", "forward", "forward", "noforward"}).Draw(t, "entry"), DB: rapid.SampledFrom([]int{0, 0, 1, 7}).Draw(t, "db")}
			hint.Cur = o.DB
			o.Cmd = genCmd(t, hint)
			if o.Entry == "noforward" {
				o.Cmd = []string{"SET", "only-" + rapid.SampledFrom(keys).Draw(t, "nk"), "refused"}
			}
		}
		ops = append(ops, o)
		rec.Class("entry:" + o.Entry)
		switch o.Entry {
		case "leader":
			_ = l.Select(o.DB)
			r := l.Do(o.Cmd...)
			hint.Step(o.Cmd, r.Val)
		case "leader-tcp":
			conn.Do("SELECT", fmt.Sprint(o.DB))
			r := conn.Do(o.Cmd...)
			hint.Step(o.Cmd, r.Val)
		case "forward":
			if fwd == nil {
				continue
			}
			_ = fwd.Select(o.DB)
			fwd.Do(o.Cmd...)
			// a tracer written through the same follower in the same database: it must end up in that database
			tracers = append(tracers, tracer{fmt.Sprintf("fw:%d", i), o.DB})
			fwd.Do("SET", fmt.Sprintf("fw:%d", i), fmt.Sprint(o.DB))
		case "noforward":
			if nofwd == nil {
				continue
			}
			_ = nofwd.Select(o.DB)
			r := nofwd.Do(o.Cmd...)
			if !r.Val.IsErr() {
				failCase(t, "B", ops, "the follower %s (forwarding disabled) accepted the write %q: %s", nofwd.ID, o.Cmd, r.String())
			}
		}
	}
	// forwarded writes travel to the leader by gossip, asynchronously: wait until every tracer has shown
	// up somewhere on the leader (bounded; a tracer that never arrives makes the case inconclusive)
	arrived := sut.WaitFor(8*time.Second, func() bool {
		for _, tr := range tracers {
			found := false
			for _, db := range dbs {
				_ = l.Select(db)
				if r := l.Do("GET", tr.key); !r.Val.IsNil() && !r.Val.IsErr() {
					found = true
				}
			}
			_ = l.Select(0)
			if !found {
				return false
			}
		}
		return true
	})
	if !arrived {
		fmt.Println("HARNESS-ERROR: a forwarded write did not reach the leader within 8 s (inconclusive)")
		return
	}
	time.Sleep(100 * time.Millisecond)
	ok, diff, ds := quiesce(c)
	if diff {
		// forwarded writes may still have been in flight: look again before judging
		time.Sleep(500 * time.Millisecond)
		ok, diff, ds = quiesce(c)
	}
	if diff {
		failCase(t, "B", ops, "the nodes are stable but hold different datasets: %s", describe(c, ds))
	}
	if !ok {
		fmt.Println("HARNESS-ERROR: replication did not quiesce within the bound (inconclusive)")
		return
	}
	// forwarded writes keep their database
	for _, tr := range tracers {
		for _, nd := range c.Nodes {
			for _, db := range dbs {
				_ = nd.Select(db)
				r := nd.Do("GET", tr.key)
				has := !r.Val.IsNil() && !r.Val.IsErr()
				if db == tr.db && !has {
					if findings.IsOpen("F-C07-forwarded-write-loses-database") {
						rec.Excluded("F-C07-forwarded-write-loses-database")
						continue
					}
					failCase(t, "B", ops, "a write forwarded by %s while database %d was selected is missing from database %d on %s (key %s)", fwd.ID, tr.db, tr.db, nd.ID, tr.key)
				}
				if db != tr.db && has {
					if findings.IsOpen("F-C07-forwarded-write-loses-database") {
						rec.Excluded("F-C07-forwarded-write-loses-database")
						continue
					}
					failCase(t, "B", ops, "a write forwarded by %s while database %d was selected landed in database %d on %s (key %s)", fwd.ID, tr.db, db, nd.ID, tr.key)
				}
			}
			_ = nd.Select(0)
		}
	}
	// nothing the non-forwarding follower was asked to write may exist anywhere
	for _, nd := range c.Nodes {
		for _, db := range dbs {
			_ = nd.Select(db)
			for _, k := range keys {
				if r := nd.Do("GET", "only-"+k); !r.Val.IsNil() && !r.Val.IsErr() {
					failCase(t, "B", ops, "a write that was only sent to the non-forwarding follower is present on %s: only-%s = %s", nd.ID, k, r.String())
				}
			}
		}
	}
	canon, _ := json.Marshal(ops)
	rec.Case("B|"+string(canon), nontrivialOps(ops), map[string]any{"leg": "B (mixed entry points)", "ops": render(ops)})
}

// Leg C: replay determinism on two independent single-node clusters.
var twins [2]*sut.Cluster

func legC(t *rapid.T, replay []op) {
	for i := range twins {
		if twins[i] == nil {
			c, err := sut.NewCluster(1, func(int) bool { return false })
			if err != nil {
				t.Fatalf("HARNESS-ERROR: single-node cluster: %v", err)
			}
			twins[i] = c
		}
		twins[i].Nodes[0].Do("FLUSHALL")
	}
	hint := model.New(func() int64 { return twins[0].Clock.Now().UnixMilli() })
	var ops []op
	n := len(replay)
	if replay == nil {
		n = rapid.IntRange(4, 30).Draw(t, "n")
	}
	for i := 0; i < n; i++ {
		var o op
		if replay != nil {
			o = replay[i]
		} else {
			o = op{Entry: "log", DB: rapid.SampledFrom([]int{0, 0, 1, 7}).Draw(t, "db")}
			hint.Cur = o.DB
			o.Cmd = genCmd(t, hint)
		}
		ops = append(ops, o)
		for _, tw := range twins {
			_ = tw.Nodes[0].Select(o.DB)
			r := tw.Nodes[0].Do(o.Cmd...)
			if tw == twins[0] {
				hint.Step(o.Cmd, r.Val)
			}
		}
	}
	d0, d1 := twins[0].Nodes[0].TakeDigest(dbs, keys), twins[1].Nodes[0].TakeDigest(dbs, keys)
	if d := d0.Diff(d1); d != "" {
		failCase(t, "C", ops, "the same command log gave different datasets on two fresh state machines: %s", d)
	}
	canon, _ := json.Marshal(ops)
	rec.Case("C|"+string(canon), nontrivialOps(ops), map[string]any{"leg": "C (replay determinism)", "ops": render(ops)})
}

func TestLegA(t *testing.T) {
	if common.ReplayPath() != "" {
		t.Skip()
	}
	defer common.Verdict(t, rec, "A")
	rapid.Check(t, func(t *rapid.T) { legA(t, nil) })
}

func TestLegB(t *testing.T) {
	if common.ReplayPath() != "" {
		t.Skip()
	}
	defer common.Verdict(t, rec, "B")
	rapid.Check(t, func(t *rapid.T) { legB(t, nil) })
}

func TestLegC(t *testing.T) {
	if common.ReplayPath() != "" {
		t.Skip()
	}
	defer common.Verdict(t, rec, "C")
	rapid.Check(t, func(t *rapid.T) { legC(t, nil) })
}

// TestLegCRandomPops: the deterministic reproducer of the recorded finding about random commands in the
// replicated log (each state machine draws its own random members).
func TestLegCRandomPops(t *testing.T) {
	if common.ReplayPath() != "" {
		t.Skip()
	}
	defer common.Verdict(t, rec, "C")
	ops := []op{{Entry: "log", Cmd: []string{"SADD", "a", "m1", "m2", "m3", "m4", "m5", "m6", "m7", "m8", "m9", "m10", "m11", "m12", "m13", "m14", "m15", "m16"}}}
	for i := 0; i < 4; i++ {
		ops = append(ops, op{Entry: "log", Cmd: []string{"SPOP", "a", "3"}})
	}
	diverged := false
	func() {
		defer func() {
			if r := recover(); r != nil {
				diverged = true
			}
		}()
		legCPlain(ops, func(msg string) { diverged = true })
	}()
	if diverged {
		if findings.IsOpen("F-C07-spop-diverges") {
			rec.Excluded("F-C07-spop-diverges")
			return
		}
		failCase(t, "C", ops, "SPOP in the command log gave different datasets on two fresh state machines")
	}
}

func legCPlain(ops []op, onDiff func(string)) {
	for i := range twins {
		if twins[i] == nil {
			c, err := sut.NewCluster(1, func(int) bool { return false })
			if err != nil {
				return
			}
			twins[i] = c
		}
		twins[i].Nodes[0].Do("FLUSHALL")
		for _, o := range ops {
			_ = twins[i].Nodes[0].Select(o.DB)
			twins[i].Nodes[0].Do(o.Cmd...)
		}
	}
	d0, d1 := twins[0].Nodes[0].TakeDigest(dbs, keys), twins[1].Nodes[0].TakeDigest(dbs, keys)
	if d := d0.Diff(d1); d != "" {
		onDiff(d)
	}
}

// TestLegDLateJoiner: a node that joins after a workload converges to the same dataset.
func TestLegDLateJoiner(t *testing.T) {
	if common.ReplayPath() != "" {
		t.Skip()
	}
	defer common.Verdict(t, rec, "D")
	c := getCluster(t)
	if !reset(t, c, "D") {
		fmt.Println("HARNESS-ERROR: cluster did not return to an empty, converged state (inconclusive)")
		return
	}
	l := c.Leader()
	ops := []op{}
	for i, cmd := range [][]string{{"SET", "a", "v"}, {"RPUSH", "b", "x", "y"}, {"SADD", "c", "m1", "m2"}, {"HSET", "a", "f", "1"}, {"ZADD", "b", "1.5", "m"}, {"SET", "c", "w", "EX", "1000"}} {
		db := []int{0, 0, 1, 1, 7, 7}[i]
		_ = l.Select(db)
		l.Do(cmd...)
		ops = append(ops, op{Entry: "leader", DB: db, Cmd: cmd})
	}
	journal(ops)
	if _, err := c.Join("SERVER-late", false); err != nil {
		fmt.Println("HARNESS-ERROR: late joiner:", err, "(inconclusive)")
		return
	}
	ok, diff, ds := quiesce(c)
	if diff {
		failCase(t, "D", ops, "after a node joined late the nodes are stable but hold different datasets: %s", describe(c, ds))
	}
	if ok {
		rec.Case("D|late-joiner", true, map[string]any{"leg": "D (late joiner)", "ops": render(ops), "nodes": len(c.Nodes)})
	}
}

// TestLegESnapshot: a raft snapshot of the state machine (SAVE on the leader) between two batches of writes,
// then a node that joins late: the process must survive, and all nodes (the late one included) must converge.
func TestLegESnapshot(t *testing.T) {
	if common.ReplayPath() != "" {
		t.Skip()
	}
	defer common.Verdict(t, rec, "E")
	c, err := sut.NewCluster(3, func(i int) bool { return i == 1 })
	if err != nil {
		fmt.Println("HARNESS-ERROR: cluster:", err, "(inconclusive)")
		return
	}
	defer c.Close()
	l := c.Leader()
	ops := []op{}
	batch := func(tag string) {
		for i, cmd := range [][]string{{"SET", "a", "v" + tag}, {"RPUSH", "b", "x" + tag, "y"}, {"SADD", "c", "m1", "m" + tag}, {"HSET", "a", "f", tag}, {"ZADD", "b", "1.5", "m" + tag}, {"INCR", "c"}} {
			db := []int{0, 0, 1, 1, 7, 7}[i]
			_ = l.Select(db)
			l.Do(cmd...)
			ops = append(ops, op{Entry: "leader", DB: db, Cmd: cmd})
		}
	}
	batch("1")
	ops = append(ops, op{Entry: "leader", DB: 0, Cmd: []string{"SAVE"}})
	journal(ops)
	_ = l.Select(0)
	r := l.Do("SAVE")
	if r.Panic != "" {
		failCase(t, "E", ops, "SAVE on the leader panicked: %s", strings.SplitN(r.Panic, "\n", 2)[0])
	}
	time.Sleep(400 * time.Millisecond) // the snapshot is taken by a goroutine of the server
	batch("2")
	journal(ops)
	if _, err := c.Join("SERVER-late", false); err != nil {
		fmt.Println("HARNESS-ERROR: late joiner:", err, "(inconclusive)")
		return
	}
	ok, diff, ds := quiesce(c)
	if diff {
		failCase(t, "E", ops, "after a snapshot on the leader and a late joiner the nodes are stable but hold different datasets: %s", describe(c, ds))
	}
	if ok {
		rec.Case("E|snapshot+late-joiner", true, map[string]any{"leg": "E (raft snapshot, late joiner)", "ops": render(ops), "nodes": len(c.Nodes)})
	}
}

// TestLegFMemoryLimit: a cluster whose nodes have a memory limit (policy noeviction). Whether a write is admitted
// is decided by the state machine, so it has to be decided identically everywhere: collections grown in place
// past the limit, then further writes; afterwards all nodes must hold the same dataset, and whatever the leader
// acknowledged must be readable on the leader.
func TestLegFMemoryLimit(t *testing.T) {
	if common.ReplayPath() != "" {
		t.Skip()
	}
	defer common.Verdict(t, rec, "F")
	limit := uint64(2500)
	c, err := sut.NewClusterWith(3, func(i int) bool { return false }, limit)
	if err != nil {
		fmt.Println("HARNESS-ERROR: cluster:", err, "(inconclusive)")
		return
	}
	defer c.Close()
	l := c.Leader()
	ops := []op{}
	acked := map[string]string{}
	do := func(db int, cmd ...string) sut.Reply {
		_ = l.Select(db)
		r := l.Do(cmd...)
		ops = append(ops, op{Entry: "leader", DB: db, Cmd: cmd})
		return r
	}
	do(0, "SADD", "s", "seed")
	do(0, "ZADD", "z", "1", "seed")
	do(1, "HSET", "h", "f", "v")
	pad := strings.Repeat("p", 120)
	refused := 0
	for i := 0; i < 40; i++ {
		// in-place growth (no admission check of its own), then writes that are admitted or refused by the limit
		do(0, "SADD", "s", fmt.Sprintf("m%02d-%s", i, pad))
		do(0, "ZADD", "z", fmt.Sprint(i), fmt.Sprintf("m%02d-%s", i, pad))
		k, v := fmt.Sprintf("x%02d", i), fmt.Sprintf("v%02d", i)
		r := do(i%2, "SET", k, v)
		if r.Val.IsErr() {
			refused++
		} else {
			acked[fmt.Sprintf("%d/%s", i%2, k)] = v
		}
	}
	journal(ops)
	for dk, v := range acked {
		var db int
		var k string
		fmt.Sscanf(dk, "%d/%s", &db, &k)
		_ = l.Select(db)
		if r := l.Do("GET", k); r.Val.IsErr() || r.Val.IsNil() {
			failCase(t, "F", ops, "the leader acknowledged SET %s %s in database %d, a read on the leader afterwards answers %s", k, v, db, r.String())
		}
	}
	_ = l.Select(0)
	// (The marker-based quiescence of the other legs cannot be used: the marker write itself may be refused at
	// the limit. The nodes are polled until they have not changed for a second.)
	view := func(n *sut.Node) string {
		var parts []string
		for _, db := range []int{0, 1} {
			_ = n.Select(db)
			for _, q := range [][]string{{"SMEMBERS", "s"}, {"ZRANGE", "z", "0", "-1", "WITHSCORES"}, {"HGETALL", "h"}} {
				r := n.Do(q...)
				el, _ := r.Val.Strings()
				if el == nil {
					var flat []string
					for _, e := range r.Val.Elems {
						flat = append(flat, e.Canon())
					}
					el = flat
				}
				sort.Strings(el)
				parts = append(parts, fmt.Sprintf("db%d %s=%d:%s", db, q[1], len(el), trunc(strings.Join(el, ","), 60)))
			}
			for i := 0; i < 40; i++ {
				k := fmt.Sprintf("x%02d", i)
				if r := n.Do("GET", k); !r.Val.IsNil() && !r.Val.IsErr() {
					parts = append(parts, fmt.Sprintf("db%d %s", db, k))
				}
			}
		}
		_ = n.Select(0)
		return strings.Join(parts, " | ")
	}
	var views []string
	stableSince := time.Now()
	deadline := time.Now().Add(sut.Patience(15 * time.Second))
	for {
		cur := []string{}
		for _, n := range c.Nodes {
			cur = append(cur, view(n))
		}
		if strings.Join(cur, "\n") != strings.Join(views, "\n") {
			views, stableSince = cur, time.Now()
		}
		if time.Since(stableSince) > time.Second || time.Now().After(deadline) {
			break
		}
		time.Sleep(50 * time.Millisecond)
	}
	if time.Since(stableSince) <= time.Second {
		fmt.Println("HARNESS-ERROR: the nodes kept changing (inconclusive)")
		return
	}
	for i := 1; i < len(views); i++ {
		if views[i] != views[0] {
			failCase(t, "F", ops, "with a memory limit of %d bytes on every node (noeviction, %d writes refused by the leader) the nodes are stable but hold different datasets:\n%s: %s\n%s: %s", limit, refused, c.Nodes[0].ID, views[0], c.Nodes[i].ID, views[i])
		}
	}
	rec.Case("F|memory-limit", refused > 0, map[string]any{"leg": "F (memory limit on every node)", "limit": limit, "writes": len(ops), "refused_by_leader": refused, "nodes": len(c.Nodes)})
}

func journal(ops []op) {
	b, _ := json.MarshalIndent(map[string]any{"property": "C07", "leg": "D", "ops": ops, "failure": "the check process died while this case was running"}, "", " ")
	_ = os.WriteFile("inflight.json", b, 0o644)
}

func TestReplay(t *testing.T) {
	p := common.ReplayPath()
	if p == "" {
		t.Skip()
	}
	var rf struct {
		Leg string `json:"leg"`
		Ops []op   `json:"ops"`
	}
	if err := common.LoadJSON(p, &rf); err != nil {
		t.Fatalf("HARNESS-ERROR: %v", err)
	}
	defer func() {
		if t.Failed() {
			fmt.Printf("VIOLATION property=C07 replay=%s\n", p)
		}
	}()
	rapid.Check(t, func(t *rapid.T) {
		switch rf.Leg {
		case "B":
			legB(t, rf.Ops)
		case "C":
			legC(t, rf.Ops)
		default:
			legA(t, rf.Ops)
		}
	})
}

func trunc(s string, n int) string {
	if len(s) > n {
		return s[:n] + "…"
	}
	return s
}
