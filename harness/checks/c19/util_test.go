package c19

import "time"

func msDur(ms int64) time.Duration { return time.Duration(ms) * time.Millisecond }
