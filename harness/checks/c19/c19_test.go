package c19

import (
	"encoding/json"
	"fmt"
	"os"
	"sort"
	"strconv"
	"strings"
	"testing"

	"pgregory.net/rapid"

	"verifharness/common"
	"verifharness/engine"
	"verifharness/evidence"
	"verifharness/gen"
	"verifharness/model"
	"verifharness/resp"
	"verifharness/sut"
)

var rec *evidence.Recorder

var keys = []string{"a", "b", "c", "longer-key-name"}
var dbs = []int{0, 1}

func TestMain(m *testing.M) {
	rec = evidence.New("C19", "exploration",
		"rapid-generated command histories (3–40 operations) over all value types in databases 0 and 1: first writes, overwrites (same and different type), in-place growth and shrinking of collections (HSET/HDEL, pushes/pops/LREM/LTRIM, SADD/SREM/SPOP/SMOVE, ZADD/ZREM/ZPOP/ZINCRBY), APPEND/SETRANGE, "+
			"DEL, RENAME, ...STORE, FLUSHDB/FLUSHALL, deadlines with clock advances past them followed by reads (lazy expiry). Oracle (differential, history-independence): the server's reported MemoryUsed equals the figure of a fresh server into which the final dataset (read back through TYPE / full read / PEXPIRETIME) "+
			"was loaded with one canonical write per key; an empty dataset reports 0. The figure itself is never interpreted. A case is one history; non-trivial = it overwrites, grows or shrinks in place, deletes, renames, flushes or expires at least one key; distinct = FNV-64 of the history.",
		"values are drawn from strings that are not numeric-looking: a numeric-looking string may be stored as int, float or string depending on the command that produced it (finding F-C01-adapttype), and a canonical reload cannot reproduce that typing",
		"standalone server, noeviction, no memory limit: the figure is observed, not acted upon (C08 covers the decisions)",
		"one case in three keeps an append-only log and restarts from it at drawn steps; one case in three runs under one of the seven max-memory policies with a limit of 400–5000 bytes (observed until dataset and figure are stable)")
	common.Main(m, rec)
}

type op struct {
	DB      int      `json:"db"`
	Cmd     []string `json:"cmd,omitempty"`
	Advance int64    `json:"advance,omitempty"`
	Restart bool     `json:"restart,omitempty"` // clean shutdown and restart from the append-only log
}

// config of one case
type caseConf struct {
	Persist bool   `json:"persist"`
	Policy  string `json:"policy"`
	Limit   uint64 `json:"limit"`
}

var vals = []string{"v", "w", "abc", "hello world", "x y", "héllo", "Z", "", "longer value with spaces ............"}
var mems = []string{"m1", "m2", "m3", "a", "b", "mem-long-name", ""}

func genOp(t *rapid.T, s *sut.Server) op {
	db := rapid.SampledFrom([]int{0, 0, 0, 1}).Draw(t, "db")
	k := gen.Key(t, keys, "k")
	k2 := gen.Key(t, keys, "k2")
	v := func(l string) string { return rapid.SampledFrom(vals).Draw(t, l) }
	m := func(l string) string { return rapid.SampledFrom(mems).Draw(t, l) }
	sc := func(l string) string { return rapid.SampledFrom([]string{"1", "2", "2.5", "-1", "10"}).Draw(t, l) }
	cmds := [][]string{
		{"SET", k, v("v")}, {"SET", k, v("v")}, {"SET", k, v("v"), "PX", "1500"}, {"MSET", k, v("v"), k2, v("v2")}, {"APPEND", k, v("v")}, {"SETRANGE", k, "2", v("v")},
		{"HSET", k, m("f"), v("v")}, {"HSET", k, m("f"), v("v"), m("f2"), v("v2")}, {"HDEL", k, m("f")}, {"HSETNX", k, m("f"), v("v")},
		{"RPUSH", k, m("e"), m("e2")}, {"LPUSH", k, m("e")}, {"LPOP", k}, {"RPOP", k, "2"}, {"LREM", k, "0", m("e")}, {"LTRIM", k, "0", "1"}, {"LSET", k, "0", v("v")}, {"LMOVE", k, k2, "LEFT", "RIGHT"},
		{"SADD", k, m("m"), m("m2")}, {"SREM", k, m("m")}, {"SPOP", k}, {"SMOVE", k, k2, m("m")}, {"SUNIONSTORE", k, k2, k}, {"SINTERSTORE", k, k2}, {"SDIFFSTORE", k, k2},
		{"ZADD", k, sc("s"), m("m")}, {"ZADD", k, sc("s"), m("m"), sc("s2"), m("m2")}, {"ZREM", k, m("m")}, {"ZPOPMIN", k}, {"ZINCRBY", k, "1", m("m")}, {"ZUNIONSTORE", k, k2}, {"ZRANGESTORE", k, k2, "-inf", "+inf"}, {"ZREMRANGEBYRANK", k, "0", "0"},
		{"DEL", k}, {"DEL", k, k2}, {"RENAME", k, k2}, {"GETDEL", k}, {"PEXPIRE", k, "1500"}, {"PERSIST", k}, {"GET", k}, {"TYPE", k}, {"HGETALL", k}, {"SMEMBERS", k}, {"LRANGE", k, "0", "-1"},
		{"FLUSHDB"}, {"FLUSHALL"},
	}
	i := rapid.IntRange(0, len(cmds)+2).Draw(t, "op")
	if i >= len(cmds) {
		return op{Advance: rapid.SampledFrom([]int64{100, 1600, 5000}).Draw(t, "adv")}
	}
	return op{DB: db, Cmd: cmds[i]}
}

func doer(s *sut.Server) model.Doer {
	return func(args ...string) (resp.Value, string) { r := s.Do(args...); return r.Val, r.Panic }
}

type dataset map[string]model.KeyState

func readDataset(s *sut.Server) dataset {
	d := dataset{}
	for _, db := range dbs {
		_ = s.Select(db)
		for _, k := range keys {
			ks := model.Observe(doer(s), k)
			if ks.Type != model.TNone {
				d[fmt.Sprintf("%d/%s", db, k)] = ks
			}
		}
	}
	return d
}

// load writes the dataset into a fresh server with one canonical write per key.
func load(s *sut.Server, d dataset) error {
	names := make([]string, 0, len(d))
	for n := range d {
		names = append(names, n)
	}
	sort.Strings(names)
	for _, n := range names {
		ks := d[n]
		parts := strings.SplitN(n, "/", 2)
		db, _ := strconv.Atoi(parts[0])
		k := parts[1]
		_ = s.Select(db)
		var cmd []string
		switch ks.Type {
		case model.TString:
			cmd = []string{"SET", k, ks.S}
		case model.THash:
			cmd = []string{"HSET", k}
			fs := make([]string, 0, len(ks.H))
			for f := range ks.H {
				fs = append(fs, f)
			}
			sort.Strings(fs)
			for _, f := range fs {
				cmd = append(cmd, f, ks.H[f])
			}
		case model.TList:
			cmd = append([]string{"RPUSH", k}, ks.L...)
		case model.TSet:
			cmd = append([]string{"SADD", k}, ks.Set...)
		case model.TZSet:
			cmd = []string{"ZADD", k}
			ms := make([]string, 0, len(ks.Z))
			for mb := range ks.Z {
				ms = append(ms, mb)
			}
			sort.Strings(ms)
			for _, mb := range ms {
				cmd = append(cmd, strconv.FormatFloat(ks.Z[mb], 'g', -1, 64), mb)
			}
		default:
			return fmt.Errorf("unreadable key %s: %s", n, ks.Canon())
		}
		if len(cmd) <= 2 {
			continue // an emptied collection that lingers as a key: cannot be reloaded, skipped on both sides below
		}
		if r := s.Do(cmd...); r.Val.IsErr() || r.Panic != "" {
			return fmt.Errorf("canonical load %q failed: %s", cmd, r.String())
		}
		if ks.Deadline > 0 {
			if r := s.Do("PEXPIREAT", k, strconv.FormatInt(ks.Deadline, 10)); r.Val.IsErr() {
				return fmt.Errorf("canonical PEXPIREAT failed: %s", r.String())
			}
		}
	}
	return nil
}

func hasEmptyCollection(d dataset) bool {
	for _, ks := range d {
		switch ks.Type {
		case model.THash:
			if len(ks.H) == 0 {
				return true
			}
		case model.TList:
			if len(ks.L) == 0 {
				return true
			}
		case model.TSet:
			if len(ks.Set) == 0 {
				return true
			}
		case model.TZSet:
			if len(ks.Z) == 0 {
				return true
			}
		}
	}
	return false
}

type replayFile struct {
	Property string   `json:"property"`
	Conf     caseConf `json:"conf"`
	Ops      []op     `json:"ops"`
	Failure  string   `json:"failure"`
}

func runCase(t *rapid.T, replay []op, rconf *caseConf) {
	var conf caseConf
	if rconf != nil {
		conf = *rconf
	} else if replay == nil {
		conf.Persist = rapid.IntRange(0, 2).Draw(t, "persist") == 0
		if rapid.IntRange(0, 2).Draw(t, "evict") == 0 {
			conf.Policy = rapid.SampledFrom([]string{"allkeys-lfu", "allkeys-lru", "allkeys-random", "volatile-lfu", "volatile-lru", "volatile-random", "noeviction"}).Draw(t, "policy")
			conf.Limit = rapid.SampledFrom([]uint64{400, 900, 2000, 5000}).Draw(t, "limit")
		}
	}
	opts := sut.Opts{Policy: conf.Policy, MaxMemory: conf.Limit}
	if conf.Persist {
		opts.DataDir, opts.AOFSync = sut.NewScratchDir("c19"), "no"
		defer os.RemoveAll(opts.DataDir)
	}
	s, err := sut.New(opts)
	if err != nil {
		t.Fatalf("HARNESS-ERROR: %v", err)
	}
	defer func() { s.Close(); s.RemoveDir() }()
	var trace []op
	nontrivial := false
	apply := func(o op) {
		trace = append(trace, o)
		if o.Restart {
			if !conf.Persist {
				return
			}
			s.WaitAsync()
			clk := s.Clock
			s.Close()
			o2 := opts
			o2.RestoreAOF, o2.Clock = true, clk
			ns, err := sut.New(o2)
			if err != nil {
				t.Fatalf("HARNESS-ERROR: restart: %v", err)
			}
			s = ns
			nontrivial = true
			rec.Class("restart from the append-only log")
			return
		}
		if o.Advance != 0 {
			s.Clock.Advance(msDur(o.Advance))
			nontrivial = true
			return
		}
		_ = s.Select(o.DB)
		s.Do(o.Cmd...)
		switch o.Cmd[0] {
		case "SET", "MSET", "TYPE", "GET", "HGETALL", "SMEMBERS", "LRANGE":
		default:
			nontrivial = true
		}
	}
	if replay != nil {
		for _, o := range replay {
			apply(o)
		}
	} else {
		n := rapid.IntRange(3, 40).Draw(t, "n")
		for i := 0; i < n; i++ {
			if conf.Persist && rapid.IntRange(0, 9).Draw(t, "restart") == 0 {
				apply(op{Restart: true})
				continue
			}
			apply(genOp(t, s))
		}
	}
	// Keys past their deadline stay physically stored (and accounted) until something removes them; the
	// property speaks of "the keys currently stored", so lazy removal is triggered first (MGET reads the
	// values and thereby removes expired keys) and only then the figure is read.
	for _, db := range dbs {
		_ = s.Select(db)
		s.Do(append([]string{"MGET"}, keys...)...)
	}
	d := readDataset(s)
	if hasEmptyCollection(d) {
		// remove lingering empty collections on the history server: they cannot be expressed by a write
		for n, ks := range d {
			if (ks.Type == model.THash && len(ks.H) == 0) || (ks.Type == model.TList && len(ks.L) == 0) || (ks.Type == model.TSet && len(ks.Set) == 0) || (ks.Type == model.TZSet && len(ks.Z) == 0) {
				parts := strings.SplitN(n, "/", 2)
				db, _ := strconv.Atoi(parts[0])
				_ = s.Select(db)
				s.Do("DEL", parts[1])
				delete(d, n)
			}
		}
	}
	s.WaitAsync()
	got := s.MemoryUsed()
	if conf.Limit != 0 {
		// reading the dataset is an access: under an eviction policy it can itself evict. Observe until the
		// dataset and the figure are stable.
		for round := 0; round < 6; round++ {
			d2 := readDataset(s)
			s.WaitAsync()
			got2 := s.MemoryUsed()
			a, _ := json.Marshal(d)
			b, _ := json.Marshal(d2)
			stable := string(a) == string(b) && got2 == got
			d, got = d2, got2
			if stable {
				break
			}
		}
		if hasEmptyCollection(d) {
			rec.Class("skipped: empty collection lingering under an eviction policy")
			return
		}
	}
	fresh, err := sut.New(sut.Opts{Clock: s.Clock})
	if err != nil {
		t.Fatalf("HARNESS-ERROR: %v", err)
	}
	defer func() { fresh.Close(); fresh.RemoveDir() }()
	if err := load(fresh, d); err != nil {
		t.Fatalf("HARNESS-ERROR: %v", err)
	}
	want := fresh.MemoryUsed()
	if len(d) == 0 {
		want = 0
	}
	if got != want {
		js, _ := json.Marshal(d)
		msg := fmt.Sprintf("MemoryUsed after the history is %d, a fresh server holding the same dataset reports %d; dataset: %s; per key (figure released by DEL on the history server / on the fresh server): %s", got, want, trunc(string(js), 600), perKey(s, fresh, d))
		b, _ := json.MarshalIndent(replayFile{Property: "C19", Conf: conf, Ops: trace, Failure: msg}, "", " ")
		p := engine.WriteRaw("C19", "random", b)
		t.Fatalf("violation (replay %s): %s", p, msg)
	}
	var canon strings.Builder
	sample := []string{}
	for _, o := range trace {
		if o.Restart {
			canon.WriteString("@restart\x1e")
			sample = append(sample, "restart (AOF restore)")
		} else if o.Advance != 0 {
			canon.WriteString(fmt.Sprintf("@adv%d\x1e", o.Advance))
			sample = append(sample, fmt.Sprintf("advance %dms", o.Advance))
		} else {
			canon.WriteString(fmt.Sprint(o.DB) + "|" + strings.Join(o.Cmd, "\x1f") + "\x1e")
			sample = append(sample, fmt.Sprintf("db%d %q", o.DB, o.Cmd))
		}
	}
	sample = append(sample, fmt.Sprintf("=> MemoryUsed %d == fresh load %d (%d keys)", got, want, len(d)))
	rec.Case(fmt.Sprintf("%v|%s|%d|", conf.Persist, conf.Policy, conf.Limit)+canon.String(), nontrivial, sample)
}

// perKey deletes the keys one by one on both servers and reports how much of the figure each one released.
func perKey(a, b *sut.Server, d dataset) string {
	names := make([]string, 0, len(d))
	for n := range d {
		names = append(names, n)
	}
	sort.Strings(names)
	var out []string
	for _, n := range names {
		parts := strings.SplitN(n, "/", 2)
		db, _ := strconv.Atoi(parts[0])
		var delta [2]int64
		for i, srv := range []*sut.Server{a, b} {
			_ = srv.Select(db)
			srv.WaitAsync()
			before := srv.MemoryUsed()
			srv.Do("DEL", parts[1])
			srv.WaitAsync()
			delta[i] = before - srv.MemoryUsed()
		}
		out = append(out, fmt.Sprintf("%s %d/%d", n, delta[0], delta[1]))
	}
	a.WaitAsync()
	return strings.Join(out, ", ") + fmt.Sprintf("; left after deleting them: %d/%d", a.MemoryUsed(), b.MemoryUsed())
}

func trunc(s string, n int) string {
	if len(s) > n {
		return s[:n] + "…"
	}
	return s
}

func TestRandom(t *testing.T) {
	if common.ReplayPath() != "" {
		t.Skip()
	}
	defer common.Verdict(t, rec, "random")
	rapid.Check(t, func(t *rapid.T) { runCase(t, nil, nil) })
}

func TestReplay(t *testing.T) {
	p := common.ReplayPath()
	if p == "" {
		t.Skip()
	}
	var rf replayFile
	if err := common.LoadJSON(p, &rf); err != nil {
		t.Fatalf("HARNESS-ERROR: %v", err)
	}
	defer func() {
		if t.Failed() {
			fmt.Printf("VIOLATION property=C19 replay=%s\n", p)
		}
	}()
	rapid.Check(t, func(t *rapid.T) { runCase(t, rf.Ops, &rf.Conf) })
}
