package c11

import (
	"crypto/sha256"
	"encoding/hex"
	"encoding/json"
	"fmt"
	"os"
	"path/filepath"
	"sort"
	"strings"
	"testing"
	"time"

	"pgregory.net/rapid"

	"verifharness/common"
	"verifharness/engine"
	"verifharness/evidence"
	"verifharness/sut"
)

var rec *evidence.Recorder

func TestMain(m *testing.M) {
	rec = evidence.New("C11", "exploration",
		"rapid state machine (3–25 steps) over an admin connection and three client connections of one in-process server that requires authentication (ACL file in JSON or YAML): ACL SETUSER edits of users u1/u2 (on, off, >p, <p, #sha256, !sha256, nopass, resetpass), ACL DELUSER (users and 'default'), ACL SAVE, ACL LOAD MERGE|REPLACE, server restart with the saved file, "+
			"AUTH p, AUTH u p, HELLO 2|3 AUTH u p [SETNAME n] with right and wrong passwords, unknown users and wrong arities, and new connections. Oracle: a reference user table maintained from the documented meaning of the password/enable tokens: (1) after every edit ACL LIST must report exactly the reference's enabled flag, nopass flag and password entries for every user; "+
			"(2) AUTH/HELLO AUTH succeeds iff the user exists, is enabled and is password-less or the password equals a plaintext entry or hashes to a SHA-256 entry; (3) after success ACL WHOAMI names that user, after a failure the identity is what it was; a fresh connection is the default user and unauthenticated (the default user has a password); (4) a deleted or disabled user cannot authenticate and its connections are refused or closed; 'default' survives DELUSER; "+
			"(5) SAVE followed by LOAD REPLACE or by a restart reproduces the same users: ACL LIST equal as a set of per-user token sets, and the same authentication outcomes. A case is one history; non-trivial = a failed and a successful authentication on one connection, or an edit between two authentications, or a save/load/restart cycle; distinct = FNV-64 of the history.",
		"only password and enable/disable tokens are edited here; permission rules are C06's subject",
		"the default user keeps the configured password so that the admin connection stays usable",
		"the default user's own passwords are edited (the administrator re-authenticates with what the reference table says); stored SHA-256 digests are offered as passwords; revocation-in-flight leg: DELUSER / SETUSER off / LOAD REPLACE while the user's pipeline of 500–8000 SET k <i> is being executed — k may advance by at most one command after the acknowledgement")
	common.Main(m, rec)
}

type user struct {
	Enabled bool
	NoPass  bool
	Plain   map[string]bool
	Hash    map[string]bool
}

func (u *user) clone() *user {
	c := &user{Enabled: u.Enabled, NoPass: u.NoPass, Plain: map[string]bool{}, Hash: map[string]bool{}}
	for k := range u.Plain {
		c.Plain[k] = true
	}
	for k := range u.Hash {
		c.Hash[k] = true
	}
	return c
}

func sha(p string) string { h := sha256.Sum256([]byte(p)); return hex.EncodeToString(h[:]) }

func (u *user) accepts(pw string) bool {
	if u == nil || !u.Enabled {
		return false
	}
	return u.NoPass || u.Plain[pw] || u.Hash[sha(pw)]
}

// applyTokens: documented meaning of the password/enable tokens (docs/docs/acl.md).
func applyTokens(u *user, toks []string) {
	for _, t := range toks {
		switch {
		case t == "on":
			u.Enabled = true
		case t == "off":
			u.Enabled = false
		case strings.HasPrefix(t, ">"):
			u.Plain[t[1:]] = true
			u.NoPass = false
		case strings.HasPrefix(t, "<"):
			delete(u.Plain, t[1:])
		case strings.HasPrefix(t, "#"):
			u.Hash[t[1:]] = true
			u.NoPass = false
		case strings.HasPrefix(t, "!"):
			delete(u.Hash, t[1:])
		}
	}
	for _, t := range toks {
		if t == "nopass" {
			u.Plain, u.Hash, u.NoPass = map[string]bool{}, map[string]bool{}, true
		}
	}
	for _, t := range toks {
		if t == "resetpass" {
			u.Plain, u.Hash, u.NoPass = map[string]bool{}, map[string]bool{}, false
		}
	}
}

type step struct {
	Kind string   `json:"kind"`
	Conn int      `json:"conn,omitempty"`
	Cmd  []string `json:"cmd,omitempty"`
}

type world struct {
	dir    string
	file   string
	port   int
	s      *sut.Server
	admin  *sut.Conn
	conns  []*sut.Conn
	who    []string // "" = unauthenticated
	users  map[string]*user
	saved  map[string]*user // reference table at the last ACL SAVE (nil = never saved)
	closed []bool
	// adminAuthFailed: the administrator could not authenticate after a (re)start (reported by the caller)
	adminAuthFailed string
}

func (w *world) start(t interface{ Fatalf(string, ...any) }) {
	var err error
	w.s, err = sut.New(sut.Opts{Port: w.port, RequirePass: true, Password: "adminpw", AclConfig: w.file, DataDir: filepath.Join(w.dir, "data")})
	if err != nil {
		t.Fatalf("HARNESS-ERROR: %v", err)
	}
	w.admin = w.dial(t)
	// the administrator authenticates with a password the reference table holds for the default user
	adminPw := "adminpw"
	if d := w.users["default"]; d != nil && !d.Plain["adminpw"] {
		for p := range d.Plain {
			adminPw = p
		}
	}
	if r := w.admin.Do("AUTH", adminPw); r.Val.IsErr() {
		w.adminAuthFailed = fmt.Sprintf("after the (re)start the default user's password %q from the reference table is refused: %s", adminPw, r.String())
	}
	w.conns, w.who, w.closed = nil, nil, nil
	for i := 0; i < 3; i++ {
		w.conns = append(w.conns, w.dial(t))
		w.who = append(w.who, "")
		w.closed = append(w.closed, false)
	}
}

func (w *world) dial(t interface{ Fatalf(string, ...any) }) *sut.Conn {
	c, err := sut.Dial(w.port)
	if err != nil {
		t.Fatalf("HARNESS-ERROR: dial: %v", err)
	}
	c.Timeout = 3 * time.Second
	c.Do("PING")
	return c
}

func (w *world) stop() {
	if w.admin != nil {
		w.admin.Close()
	}
	for _, c := range w.conns {
		c.Close()
	}
	w.s.Close()
	time.Sleep(2 * time.Millisecond)
}

// reported parses ACL LIST into user -> token set (password/enable tokens only).
func (w *world) reported() (map[string]map[string]bool, []string) {
	lines, _ := w.admin.Do("ACL", "LIST").Val.Strings()
	out := map[string]map[string]bool{}
	for _, l := range lines {
		f := strings.Fields(l)
		if len(f) == 0 {
			continue
		}
		set := map[string]bool{}
		for _, tok := range f[1:] {
			if tok == "on" || tok == "off" || tok == "nopass" || strings.HasPrefix(tok, ">") || strings.HasPrefix(tok, "#") {
				set[tok] = true
			}
		}
		out[f[0]] = set
	}
	sort.Strings(lines)
	return out, lines
}

func wantTokens(u *user) map[string]bool {
	set := map[string]bool{}
	if u.Enabled {
		set["on"] = true
	} else {
		set["off"] = true
	}
	if u.NoPass {
		set["nopass"] = true
	}
	for p := range u.Plain {
		set[">"+p] = true
	}
	for h := range u.Hash {
		set["#"+h] = true
	}
	return set
}

func setStr(m map[string]bool) string {
	ks := make([]string, 0, len(m))
	for k := range m {
		ks = append(ks, k)
	}
	sort.Strings(ks)
	return strings.Join(ks, " ")
}

var pwPool = []string{"p1", "p2", "secret", "adminpw", "x"}

func genStep(t *rapid.T, w *world) step {
	u := rapid.SampledFrom([]string{"u1", "u2"}).Draw(t, "user")
	pw := func(l string) string { return rapid.SampledFrom(pwPool).Draw(t, l) }
	// passwords offered when authenticating: the pool, and the stored form of a hashed password (its hex digest),
	// which is not a password
	apw := func(l string) string {
		if rapid.IntRange(0, 5).Draw(t, l+"_digest") == 0 {
			return sha(pw(l))
		}
		return pw(l)
	}
	c := rapid.IntRange(0, 2).Draw(t, "conn")
	switch rapid.IntRange(0, 19).Draw(t, "kind") {
	case 0, 1, 2, 3, 4:
		if rapid.IntRange(0, 7).Draw(t, "editdefault") == 0 {
			// the default user's own passwords: one is added, and sometimes the one from the configuration is removed
			// in the same command (the administrator's connection stays authenticated; after a restart from the saved
			// file it has to use what the file says)
			np := rapid.SampledFrom([]string{"p1", "p2", "secret"}).Draw(t, "defpw")
			cmd := []string{"ACL", "SETUSER", "default", ">" + np}
			if rapid.IntRange(0, 1).Draw(t, "dropconf") == 1 {
				cmd = append(cmd, "<adminpw")
			}
			return step{Kind: "admin", Cmd: cmd}
		}
		n := rapid.IntRange(1, 3).Draw(t, "ntok")
		cmd := []string{"ACL", "SETUSER", u}
		for i := 0; i < n; i++ {
			switch rapid.IntRange(0, 9).Draw(t, "tok") {
			case 0, 1:
				cmd = append(cmd, ">"+pw("pw"))
			case 2:
				cmd = append(cmd, "<"+pw("pw"))
			case 3:
				cmd = append(cmd, "#"+sha(pw("pw")))
			case 4:
				cmd = append(cmd, "!"+sha(pw("pw")))
			case 5:
				cmd = append(cmd, "on")
			case 6:
				cmd = append(cmd, "off")
			case 7:
				cmd = append(cmd, "nopass")
			case 8:
				cmd = append(cmd, "resetpass")
			default:
				cmd = append(cmd, "on", ">"+pw("pw"))
			}
		}
		return step{Kind: "admin", Cmd: cmd}
	case 5:
		who := rapid.SampledFrom([]string{"u1", "u2", "default", "ghost"}).Draw(t, "deluser")
		return step{Kind: "admin", Cmd: []string{"ACL", "DELUSER", who}}
	case 6:
		return step{Kind: "admin", Cmd: []string{"ACL", "SAVE"}}
	case 7:
		return step{Kind: "admin", Cmd: []string{"ACL", "LOAD", rapid.SampledFrom([]string{"REPLACE", "MERGE"}).Draw(t, "mode")}}
	case 8:
		return step{Kind: "restart"}
	case 9:
		return step{Kind: "reconnect", Conn: c}
	case 10, 11, 12, 13:
		target := rapid.SampledFrom([]string{"u1", "u2", "ghost", "default"}).Draw(t, "authuser")
		return step{Kind: "auth", Conn: c, Cmd: []string{"AUTH", target, apw("apw")}}
	case 14:
		return step{Kind: "auth", Conn: c, Cmd: []string{"AUTH", apw("apw")}}
	case 15, 16:
		target := rapid.SampledFrom([]string{"u1", "u2", "ghost"}).Draw(t, "authuser")
		cmd := []string{"HELLO", rapid.SampledFrom([]string{"2", "3"}).Draw(t, "proto"), "AUTH", target, apw("apw")}
		if rapid.IntRange(0, 1).Draw(t, "setname") == 1 {
			cmd = append(cmd, "SETNAME", "cli")
		}
		return step{Kind: "auth", Conn: c, Cmd: cmd}
	case 17:
		return step{Kind: "auth", Conn: c, Cmd: rapid.SampledFrom([][]string{{"AUTH"}, {"AUTH", "u1", "p1", "extra"}, {"HELLO", "3", "AUTH", "u1"}, {"HELLO", "9", "AUTH", "u1", "p1"}}).Draw(t, "badauth")}
	default:
		return step{Kind: "probe", Conn: c}
	}
}

func runCase(t *rapid.T, replay []step, ext string) {
	dir := sut.NewScratchDir("c11")
	defer os.RemoveAll(dir)
	if ext == "" {
		ext = rapid.SampledFrom([]string{".json", ".yaml"}).Draw(t, "ext")
	}
	w := &world{dir: dir, file: filepath.Join(dir, "acl"+ext), port: sut.FreePort(), users: map[string]*user{}}
	w.users["default"] = &user{Enabled: true, Plain: map[string]bool{"adminpw": true}, Hash: map[string]bool{}}
	w.start(t)
	defer func() { w.stop() }()
	var trace []step
	fail := func(format string, a ...any) {
		msg := fmt.Sprintf(format, a...)
		b, _ := json.MarshalIndent(map[string]any{"property": "C11", "ext": ext, "steps": trace, "failure": msg}, "", " ")
		p := engine.WriteRaw("C11", "random", b)
		t.Fatalf("violation (replay %s): %s", p, msg)
	}
	checkReported := func(ctx string) {
		rep, lines := w.reported()
		for name, u := range w.users {
			got, ok := rep[name]
			if !ok {
				fail("%s: user %s is missing from ACL LIST %q", ctx, name, lines)
			}
			if setStr(got) != setStr(wantTokens(u)) {
				fail("%s: ACL LIST reports [%s] for user %s, the edits so far amount to [%s]", ctx, setStr(got), name, setStr(wantTokens(u)))
			}
		}
		for name := range rep {
			if _, ok := w.users[name]; !ok {
				fail("%s: ACL LIST reports user %s, which was deleted or never created", ctx, name)
			}
		}
	}
	identity := func(i int) (string, bool) {
		r := w.conns[i].Do("ACL", "WHOAMI")
		if r.ParseErr != "" && !r.Strict {
			return "", false // connection closed
		}
		if r.Val.IsErr() {
			return "", true
		}
		s, _ := r.Val.Text()
		return s, true
	}
	failedAuth, okAuth, cycle, editBetween := map[int]bool{}, map[int]bool{}, false, false
	steps := replay
	n := len(steps)
	if replay == nil {
		n = rapid.IntRange(3, 25).Draw(t, "n")
	}
	for i := 0; i < n; i++ {
		var st step
		if replay != nil {
			st = steps[i]
		} else {
			st = genStep(t, w)
		}
		trace = append(trace, st)
		rec.Class("step:" + st.Kind)
		switch st.Kind {
		case "admin":
			r := w.admin.Do(st.Cmd...)
			switch strings.ToUpper(st.Cmd[1]) {
			case "SETUSER":
				if r.Val.IsErr() {
					fail("%q failed: %s", st.Cmd, r.String())
				}
				u, ok := w.users[st.Cmd[2]]
				if !ok {
					// a new user: enabled unless told otherwise is what CreateUser does; the docs only say
					// "on - enable this user", so the flag is adopted from what the server reports
					u = &user{Enabled: true, Plain: map[string]bool{}, Hash: map[string]bool{}}
					rep, _ := w.reported()
					if got, ok := rep[st.Cmd[2]]; ok {
						u.Enabled = got["on"]
					}
					explicit := false
					for _, tk := range st.Cmd[3:] {
						if tk == "on" || tk == "off" {
							explicit = true
						}
					}
					_ = explicit
					w.users[st.Cmd[2]] = u
				}
				applyTokens(u, st.Cmd[3:])
				if len(okAuth) > 0 {
					editBetween = true
				}
			case "DELUSER":
				if st.Cmd[2] != "default" {
					delete(w.users, st.Cmd[2])
					for ci := range w.who {
						if w.who[ci] == st.Cmd[2] {
							w.who[ci] = "\x00deleted"
						}
					}
				}
			case "SAVE":
				if r.Val.IsErr() {
					fail("ACL SAVE failed: %s", r.String())
				}
				w.saved = map[string]*user{}
				for k, v := range w.users {
					w.saved[k] = v.clone()
				}
			case "LOAD":
				if w.saved == nil {
					continue // nothing saved: the file may not exist; not asserted
				}
				if r.Val.IsErr() {
					fail("%q failed: %s", st.Cmd, r.String())
				}
				cycle = true
				if strings.EqualFold(st.Cmd[2], "REPLACE") {
					for name, sv := range w.saved {
						w.users[name] = sv.clone()
					}
				} else {
					// MERGE: users only in the file are added; for users in both, the documented outcome is
					// not specific enough to model — their entries are adopted from the server
					rep, _ := w.reported()
					for name, sv := range w.saved {
						if _, ok := w.users[name]; !ok {
							w.users[name] = sv.clone()
							continue
						}
						u := &user{Plain: map[string]bool{}, Hash: map[string]bool{}}
						for tok := range rep[name] {
							switch {
							case tok == "on":
								u.Enabled = true
							case tok == "nopass":
								u.NoPass = true
							case strings.HasPrefix(tok, ">"):
								u.Plain[tok[1:]] = true
							case strings.HasPrefix(tok, "#"):
								u.Hash[tok[1:]] = true
							}
						}
						w.users[name] = u
					}
				}
			}
			checkReported(fmt.Sprintf("after %q", st.Cmd))
		case "restart":
			if w.saved == nil {
				continue
			}
			w.stop()
			w.users = map[string]*user{}
			for name, sv := range w.saved {
				w.users[name] = sv.clone()
			}
			if _, ok := w.users["default"]; !ok {
				w.users["default"] = &user{Enabled: true, Plain: map[string]bool{"adminpw": true}, Hash: map[string]bool{}}
			}
			w.start(t)
			cycle = true
			if w.adminAuthFailed != "" {
				fail("%s", w.adminAuthFailed)
			}
			checkReported("after a restart with the saved ACL file")
		case "reconnect":
			w.conns[st.Conn].Close()
			w.conns[st.Conn] = w.dial(t)
			w.who[st.Conn], w.closed[st.Conn] = "", false
			if who, open := identity(st.Conn); !open || who != "" {
				fail("a new connection starts as %q (open=%v); it must be the unauthenticated default user", who, open)
			}
		case "auth":
			i := st.Conn
			if w.who[i] == "\x00deleted" {
				// the connection of a deleted user: closed or refusing everything; re-dial for the rest of the case
				w.conns[i].Close()
				w.conns[i] = w.dial(t)
				w.who[i] = ""
			}
			before, open := identity(i)
			if !open {
				w.conns[i] = w.dial(t)
				w.who[i] = ""
				before = ""
			}
			visible := w.who[i]
			if u := w.users[visible]; visible != "" && (u == nil || !u.Enabled) {
				visible = "" // a disabled (or vanished) user's connection is refused, also for ACL WHOAMI
			}
			if before != visible {
				fail("connection %d is %q according to ACL WHOAMI, the history says %q", i, before, visible)
			}
			r := w.conns[i].Do(st.Cmd...)
			// expectation
			var target, pw string
			valid := false
			switch {
			case strings.EqualFold(st.Cmd[0], "AUTH") && len(st.Cmd) == 2:
				target, pw, valid = "default", st.Cmd[1], true
			case strings.EqualFold(st.Cmd[0], "AUTH") && len(st.Cmd) == 3:
				target, pw, valid = st.Cmd[1], st.Cmd[2], true
			case strings.EqualFold(st.Cmd[0], "HELLO") && (len(st.Cmd) == 5 || len(st.Cmd) == 7) && (st.Cmd[1] == "2" || st.Cmd[1] == "3"):
				target, pw, valid = st.Cmd[3], st.Cmd[4], true
			}
			expectOK := valid && w.users[target].accepts(pw)
			if expectOK && r.Val.IsErr() {
				fail("%q on connection %d must succeed (user %s: [%s]) but answered %s", st.Cmd, i, target, setStr(wantTokens(w.users[target])), r.String())
			}
			if !expectOK && !r.Val.IsErr() {
				why := "malformed command"
				if valid {
					if u, ok := w.users[target]; ok {
						why = fmt.Sprintf("user %s: [%s]", target, setStr(wantTokens(u)))
					} else {
						why = "no such user"
					}
				}
				fail("%q on connection %d must fail (%s) but answered %s", st.Cmd, i, why, r.String())
			}
			if strings.EqualFold(st.Cmd[0], "HELLO") {
				w.conns[i].Do("HELLO", "2")
			}
			after, open := identity(i)
			if expectOK {
				okAuth[i] = true
				w.who[i] = target
				if !open || after != target {
					fail("after a successful %q connection %d is %q (open=%v), expected %q", st.Cmd, i, after, open, target)
				}
			} else {
				failedAuth[i] = true
				if !open || after != before {
					if !open && w.who[i] != "" && (w.users[w.who[i]] == nil) {
						continue // the user was deleted meanwhile: its connection may be closed at any time
					}
					fail("a failed %q changed connection %d from %q to %q (open=%v)", st.Cmd, i, before, after, open)
				}
			}
		case "probe":
			i := st.Conn
			who, open := identity(i)
			switch w.who[i] {
			case "\x00deleted":
				if open && who != "" {
					fail("connection %d of a deleted user still acts as %q", i, who)
				}
			default:
				u := w.users[w.who[i]]
				if w.who[i] != "" && u != nil && !u.Enabled {
					if open && who != "" {
						fail("connection %d still acts as %q although the user is disabled", i, who)
					}
				} else if open && who != w.who[i] {
					fail("connection %d is %q according to ACL WHOAMI, the history says %q", i, who, w.who[i])
				}
			}
		}
	}
	nontrivial := cycle || editBetween
	for i := range okAuth {
		if failedAuth[i] {
			nontrivial = true
		}
	}
	canon, _ := json.Marshal(map[string]any{"e": ext, "s": trace})
	sample := []string{"acl file " + ext}
	for _, s := range trace {
		sample = append(sample, fmt.Sprintf("%s conn%d %q", s.Kind, s.Conn, s.Cmd))
	}
	rec.Case(string(canon), nontrivial, sample)
}

func TestRandom(t *testing.T) {
	if common.ReplayPath() != "" {
		t.Skip()
	}
	defer common.Verdict(t, rec, "random")
	rapid.Check(t, func(t *rapid.T) { runCase(t, nil, "") })
}

func TestReplay(t *testing.T) {
	p := common.ReplayPath()
	if p == "" {
		t.Skip()
	}
	var rf struct {
		Ext    string      `json:"ext"`
		Steps  []step      `json:"steps"`
		Leg    string      `json:"leg"`
		Revoke *revokeCase `json:"revoke"`
	}
	if err := common.LoadJSON(p, &rf); err != nil {
		t.Fatalf("HARNESS-ERROR: %v", err)
	}
	defer func() {
		if t.Failed() {
			fmt.Printf("VIOLATION property=C11 replay=%s\n", p)
		}
	}()
	if rf.Leg == "revoke" && rf.Revoke != nil {
		rapid.Check(t, func(t *rapid.T) { runRevoke(t, rf.Revoke) })
		return
	}
	rapid.Check(t, func(t *rapid.T) { runCase(t, rf.Steps, rf.Ext) })
}
