package c11

import (
	"encoding/json"
	"fmt"
	"os"
	"strconv"
	"strings"
	"testing"
	"time"

	"pgregory.net/rapid"

	"verifharness/common"
	"verifharness/engine"
	"verifharness/sut"
)

// ---- revocation while the user has commands in flight ----
//
// A user connection writes a long pipeline of SET k <i> (i = 0, 1, 2, …) in one go. While the server works
// through it, the administrator revokes the user (ACL DELUSER, ACL SETUSER u off, or ACL LOAD REPLACE of a file
// in which the user is off; a user that the file does not name is left alone by LOAD, as documented). "A deleted or disabled user can no longer act": once the revocation has
// been acknowledged, at most the one command that had already been authorised may still take effect, so the
// value of k read right after the acknowledgement may grow by at most one step afterwards.

type revokeCase struct {
	How      string `json:"how"`
	Pipeline int    `json:"pipeline"`
	Lead     int    `json:"lead"` // the revocation is issued once k has reached this index
}

func runRevoke(t *rapid.T, replay *revokeCase) {
	var rc revokeCase
	if replay != nil {
		rc = *replay
	} else {
		rc.How = rapid.SampledFrom([]string{"deluser", "setuser-off", "load-replace-off"}).Draw(t, "how")
		rc.Pipeline = rapid.SampledFrom([]int{500, 2000, 8000}).Draw(t, "pipeline")
		rc.Lead = rapid.SampledFrom([]int{0, 1, 5, 50}).Draw(t, "lead")
	}
	dir := sut.NewScratchDir("c11r")
	defer os.RemoveAll(dir)
	file := dir + "/acl.json"
	port := sut.FreePort()
	s, err := sut.New(sut.Opts{Port: port, RequirePass: true, Password: "adminpw", AclConfig: file, DataDir: dir + "/data"})
	if err != nil {
		t.Fatalf("HARNESS-ERROR: %v", err)
	}
	defer s.Close()
	dial := func() *sut.Conn {
		c, err := sut.Dial(port)
		if err != nil {
			t.Fatalf("HARNESS-ERROR: dial: %v", err)
		}
		c.Do("PING")
		return c
	}
	admin := dial()
	defer admin.Close()
	must := func(r sut.Reply, what string) {
		if r.Val.IsErr() {
			t.Fatalf("HARNESS-ERROR: %s: %s", what, r.String())
		}
	}
	must(admin.Do("AUTH", "adminpw"), "admin AUTH")
	fail := func(format string, a ...any) {
		msg := fmt.Sprintf(format, a...)
		b, _ := json.MarshalIndent(map[string]any{"property": "C11", "leg": "revoke", "revoke": rc, "failure": msg}, "", " ")
		p := engine.WriteRaw("C11", "revoke", b)
		t.Fatalf("violation (replay %s): %s", p, msg)
	}
	// the file for the LOAD variants is written by the server itself (ACL SAVE) from the wanted end state
	switch rc.How {
	case "load-replace-off":
		must(admin.Do("ACL", "SETUSER", "eve", "off", ">pw", "allCategories", "allCommands", "allKeys"), "SETUSER (file)")
		must(admin.Do("ACL", "SAVE"), "ACL SAVE")
	}
	must(admin.Do("ACL", "SETUSER", "eve", "on", ">pw", "allCategories", "allCommands", "allKeys"), "SETUSER")
	must(admin.Do("SET", "k", "-1"), "SET")
	eve := dial()
	defer eve.Close()
	must(eve.Do("AUTH", "eve", "pw"), "eve AUTH")
	var buf []byte
	for i := 0; i < rc.Pipeline; i++ {
		buf = append(buf, sut.Encode("SET", "k", strconv.Itoa(i))...)
	}
	go func() { _ = eve.Send(buf) }()
	go func() { // keep eve's socket drained so that the server is never held up by unread replies
		for {
			if _, _, err := eve.ReadValue(2 * time.Second); err != nil && !sut.IsTimeout(err) {
				return
			}
		}
	}()
	index := func() int {
		r := admin.Do("GET", "k")
		txt, _ := r.Val.Text()
		n, _ := strconv.Atoi(txt)
		return n
	}
	deadline := time.Now().Add(sut.Patience(10 * time.Second))
	for index() < rc.Lead && time.Now().Before(deadline) {
	}
	var r sut.Reply
	switch rc.How {
	case "deluser":
		r = admin.Do("ACL", "DELUSER", "eve")
	case "setuser-off":
		r = admin.Do("ACL", "SETUSER", "eve", "off")
	default:
		r = admin.Do("ACL", "LOAD", "REPLACE")
	}
	if r.Val.IsErr() {
		if strings.HasPrefix(rc.How, "load") {
			rec.Class("revoke: ACL LOAD refused (inconclusive)")
			return
		}
		fail("%s was refused: %s", rc.How, r.String())
	}
	at := index()
	if at >= rc.Pipeline-2 {
		rec.Class("revoke: the pipeline had finished before the revocation (trivial)")
		rec.Case(fmt.Sprintf("revoke|%s|%d|%d|late", rc.How, rc.Pipeline, rc.Lead), false, "pipeline finished first")
		return
	}
	// let whatever is still queued run
	time.Sleep(30 * time.Millisecond)
	last := index()
	for i := 0; i < 20; i++ {
		time.Sleep(10 * time.Millisecond)
		if n := index(); n != last {
			last = n
			i = 0
		}
		if last > at+1 {
			break
		}
	}
	if last > at+1 {
		fail("%s of user eve was acknowledged when k was %d; afterwards the revoked user's pipelined commands kept taking effect (k reached %d of %d)", rc.How, at, last, rc.Pipeline-1)
	}
	rec.Class("revoke: " + rc.How)
	rec.Case(fmt.Sprintf("revoke|%s|%d|%d", rc.How, rc.Pipeline, rc.Lead), true, fmt.Sprintf("%s while eve's pipeline of %d SETs was at %d: k stopped at %d", rc.How, rc.Pipeline, at, last))
}

func TestRevocationInFlight(t *testing.T) {
	if common.ReplayPath() != "" {
		t.Skip()
	}
	defer common.Verdict(t, rec, "revoke")
	rapid.Check(t, func(t *rapid.T) { runRevoke(t, nil) })
}
