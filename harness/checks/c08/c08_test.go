package c08

import (
	"encoding/json"
	"fmt"
	"os"
	"path/filepath"
	"sort"
	"strconv"
	"strings"
	"testing"
	"time"

	"github.com/echovault/sugardb/verifhook"
	"pgregory.net/rapid"

	"verifharness/common"
	"verifharness/engine"
	"verifharness/evidence"
	"verifharness/findings"
	"verifharness/sut"
)

var rec *evidence.Recorder

var keys = []string{"k1", "k2", "k3", "k4", "k5", "k6"}

// obsKeys: everything a case can write (the pool of the random operations plus the growth keys of the scenarios).
var obsKeys = []string{"k1", "k2", "k3", "k4", "k5", "k6", "g0", "g1", "g2", "g3", "g4"}
var dbs = []int{0, 1}

var policies = []string{"noeviction", "allkeys-lfu", "allkeys-lru", "allkeys-random", "volatile-lfu", "volatile-lru", "volatile-random"}

func TestMain(m *testing.M) {
	rec = evidence.New("C08", "exploration",
		"configuration sweep over the seven max-memory policies × memory limits chosen relative to the workload (the same generated history is first run on a twin server without a limit to learn the usage after every step; the limit is then set just below, at or just above the usage reached at a drawn step, or above the maximum) × rapid-generated access histories of 4–24 operations (writes of all value types, overwrites, reads, TOUCH, EXPIRE/PERSIST, DEL, FLUSHDB) over keys k1..k6 in databases 0 and 1, with ≥ 3 ms of real time between accesses under the LRU policies. "+
			"After every operation the harness waits until the server's fire-and-forget cache goroutines are idle (hook H2) and observes. Oracle, stated over the figure the server itself reports (MemoryUsed): noeviction — no key ever disappears, a write that stores data through the keyspace is refused with an error and changes nothing iff the reported usage is at or above the limit immediately before it, DEL and FLUSHDB keep working at the limit; "+
			"eviction policies — a key disappears only when the usage reached the limit; only keys of the policy's candidate set disappear (volatile-*: keys that have a deadline); when keys were evicted the usage is back under the limit unless the candidate set is exhausted, and not further than necessary (usage after + size of the largest evicted key ≥ limit, sizes measured on the twin); under LFU no evicted key had been accessed more often than a surviving candidate of the same database; under LRU none more recently (recorded open finding: the LRU heap pops the most recent key first); "+
			"an evicted key is absent for TYPE/GET/TTL and the eviction bookkeeping (OBJECTFREQ / OBJECTIDLETIME), every surviving key reads exactly as on the twin, and the process survives. A case is (policy, limit, history); non-trivial = the usage reaches the limit at least once; distinct = FNV-64 of the case.",
		"the in-flight case is journalled before it runs: a crash of the in-process server with frames of the server in the trace is reported as a violation with that case as replay",
		"LRU recency is stamped with time.Now() by the server, so LRU cases are paced in real time; everything else runs under the virtual clock",
		"scenario generators: a volatile key that is accessed and then loses its deadline; volatile keys, a flush, growth; a two-key writer placed one byte under the limit; collection writers that modify a stored value before the write is admitted; presence is probed with PTTL (not an access); an eviction pass that never ends while the server stops answering is a violation")
	common.Main(m, rec)
}

type op struct {
	DB  int      `json:"db"`
	Cmd []string `json:"cmd"`
}

type caseData struct {
	Policy   string `json:"policy"`
	Limit    uint64 `json:"limit"`
	LimitHow string `json:"limit_how"`
	Ops      []op   `json:"ops"`
	// Blind: the values are only read after the last step (presence is probed with PTTL, which is not an access).
	Blind bool `json:"blind"`
}

var vals = []string{"v", "value-with-some-length", "x", "a-considerably-longer-value-............................................"}

func genOps(t *rapid.T) []op {
	n := rapid.IntRange(4, 24).Draw(t, "n")
	var ops []op
	if rapid.IntRange(0, 7).Draw(t, "movescenario") == 0 {
		// two collections and a command that writes both keys, placed last: with the limit one byte above the usage
		// before it (see the limit placement), the first of its writes can be admitted and the second refused —
		// the command then has to fail as a whole
		db := rapid.SampledFrom([]int{0, 1}).Draw(t, "mdb")
		big := vals[len(vals)-1]
		pre := [][]string{{"RPUSH", "k1", big, "e2"}, {"RPUSH", "k2", "w"}, {"SADD", "k3", big, "m"}, {"SADD", "k4", "x"}}
		for _, c := range pre {
			ops = append(ops, op{DB: db, Cmd: c})
		}
		mv := rapid.SampledFrom([][]string{{"LMOVE", "k1", "k2", "LEFT", "RIGHT"}, {"LMOVE", "k1", "k2", "LEFT", "LEFT"}, {"SMOVE", "k3", "k4", big}, {"RENAME", "k1", "k5"}, {"MSET", "k5", big, "k6", big}}).Draw(t, "mv")
		ops = append(ops, op{DB: db, Cmd: mv})
		return append(ops, op{DB: db, Cmd: []string{"\x00two-key-last"}})
	}
	if rapid.IntRange(0, 7).Draw(t, "flushscenario") == 0 {
		// volatile keys, then a flush, then growth by keys without an expiry: bookkeeping left behind by the
		// flush must not be picked as a candidate (or looped over for ever) when the limit is reached
		db := rapid.SampledFrom([]int{0, 1}).Draw(t, "fdb")
		for i, nv := 0, rapid.IntRange(1, 3).Draw(t, "fvol"); i < nv; i++ {
			ops = append(ops, op{DB: db, Cmd: []string{"SET", keys[i], rapid.SampledFrom(vals).Draw(t, "fv"), "EX", "1000"}})
			if rapid.IntRange(0, 1).Draw(t, "fget") == 1 {
				ops = append(ops, op{DB: db, Cmd: []string{"GET", keys[i]}})
			}
		}
		ops = append(ops, op{DB: db, Cmd: []string{rapid.SampledFrom([]string{"FLUSHDB", "FLUSHDB", "FLUSHALL"}).Draw(t, "fflush")}})
		for i, np := 0, rapid.IntRange(2, 5).Draw(t, "fpers"); i < np; i++ {
			ops = append(ops, op{DB: db, Cmd: []string{"SET", keys[(i+3)%len(keys)], vals[len(vals)-1]}})
		}
	}
	if rapid.IntRange(0, 3).Draw(t, "scenario") == 0 {
		// a key that was volatile, was accessed, and then lost its deadline, followed by other volatile keys
		// with more accesses and by growth: under the volatile policies it must never be chosen again
		db := rapid.SampledFrom([]int{0, 0, 1}).Draw(t, "sdb")
		k := rapid.SampledFrom(keys).Draw(t, "sk")
		ops = append(ops, op{DB: db, Cmd: []string{"SET", k, rapid.SampledFrom(vals).Draw(t, "sv"), "EX", "1000"}})
		for i, g := 0, rapid.IntRange(1, 2).Draw(t, "sget"); i < g; i++ {
			ops = append(ops, op{DB: db, Cmd: []string{"GET", k}})
		}
		ops = append(ops, op{DB: db, Cmd: rapid.SampledFrom([][]string{{"PERSIST", k}, {"PERSIST", k}, {"GETEX", k, "PERSIST"}, {"SET", k, "plain"}}).Draw(t, "sdrop")})
		for _, k2 := range keys {
			if k2 == k || rapid.IntRange(0, 2).Draw(t, "sother") == 0 {
				continue
			}
			ops = append(ops, op{DB: db, Cmd: []string{"SET", k2, rapid.SampledFrom(vals).Draw(t, "sv2"), "EX", "1000"}})
			for i, g := 0, rapid.IntRange(0, 4).Draw(t, "sget2"); i < g; i++ {
				ops = append(ops, op{DB: db, Cmd: []string{"GET", k2}})
			}
		}
		// growth by keys that no volatile policy may evict: with the limit at the usage reached here (see the limit
		// placement), every candidate has to go before the writes are refused or admitted — and only candidates
		mark := len(ops) - 1
		for i, g := 0, rapid.IntRange(2, 5).Draw(t, "sgrow"); i < g; i++ {
			ops = append(ops, op{DB: db, Cmd: []string{"SET", fmt.Sprintf("g%d", i), vals[len(vals)-1]}})
		}
		ops = append(ops, op{DB: db, Cmd: []string{"\x00limit-at", strconv.Itoa(mark)}})
		return ops
	}
	for i := 0; i < n; i++ {
		db := rapid.SampledFrom([]int{0, 0, 0, 1}).Draw(t, "db")
		k := rapid.SampledFrom(keys).Draw(t, "k")
		v := rapid.SampledFrom(vals).Draw(t, "v")
		cands := [][]string{
			{"SET", k, v}, {"SET", k, v}, {"SET", k, v}, {"SET", k, v, "EX", "1000"}, {"SET", k, v, "EX", "1000"}, {"MSET", k, v, rapid.SampledFrom(keys).Draw(t, "k2"), v},
			{"HSET", k, "f", v}, {"RPUSH", k, v, "e"}, {"SADD", k, v, "m"}, {"ZADD", k, "1", v}, {"APPEND", k, v}, {"INCR", k},
			{"GET", k}, {"GET", k}, {"TYPE", k}, {"TOUCH", k}, {"TOUCH", k, rapid.SampledFrom(keys).Draw(t, "k3")}, {"MGET", k, rapid.SampledFrom(keys).Draw(t, "k4")},
			{"EXPIRE", k, "1000"}, {"PERSIST", k}, {"DEL", k}, {"LPOP", k}, {"SREM", k, "m"},
			// writes that modify a stored collection and then pass it through the admission check: when that
			// refuses them at the limit, nothing may have changed
			{"LSET", k, "0", v}, {"HINCRBY", k, "n", "1"}, {"HINCRBYFLOAT", k, "n", "1.5"}, {"HDEL", k, "f"}, {"LTRIM", k, "0", "0"}, {"LREM", k, "0", "e"},
			{"ZINCRBY", k, "1", v}, {"SETRANGE", k, "1", v}, {"LPUSHX", k, v}, {"HSETNX", k, "g", v},
			// two-key writers: refused at the limit they must leave both keys as they were
			{"LMOVE", k, rapid.SampledFrom(keys).Draw(t, "k5"), "LEFT", "RIGHT"}, {"SMOVE", k, rapid.SampledFrom(keys).Draw(t, "k6"), "m"}, {"RENAME", k, rapid.SampledFrom(keys).Draw(t, "k7")},
		}
		if rapid.IntRange(0, 40).Draw(t, "flush") == 0 {
			ops = append(ops, op{DB: db, Cmd: []string{"FLUSHDB"}})
			continue
		}
		ops = append(ops, op{DB: db, Cmd: rapid.SampledFrom(cands).Draw(t, "cmd")})
	}
	return ops
}

// storesThroughKeyspace: commands whose write goes through the keyspace's admission check.
var storing = map[string]bool{"SET": true, "MSET": true, "HSET": true, "RPUSH": true, "APPEND": true, "INCR": true, "LPOP": true}

// (The added collection writers are not in this set: whether they are refused at the limit is not asserted, only
// that a refused one changes nothing, which the survivor comparison with the twin decides.)

func waitIdle() bool { return verifhook.WaitAsyncIdle(sut.Patience(10 * time.Second)) }

func start(policy string, limit uint64) (*sut.Server, error) {
	return sut.New(sut.Opts{Policy: policy, MaxMemory: limit})
}

type keyID struct {
	db  int
	key string
}

func present(s *sut.Server) map[keyID]bool {
	out := map[keyID]bool{}
	for _, db := range dbs {
		_ = s.Select(db)
		for _, k := range obsKeys {
			// PTTL asks the keyspace whether the key exists and for its deadline without reading the value:
			// unlike TYPE or GET it is not an access, so observing does not touch the eviction bookkeeping
			// (an access would, for instance, repair a stale cache entry before the pressure reaches it).
			if r := s.Do("PTTL", k); !r.Val.IsErr() {
				if n, ok := r.Val.AsInt(); ok && n != -2 {
					out[keyID{db, k}] = true
				}
			}
		}
	}
	return out
}

func runCase(t *rapid.T, replay *caseData) {
	var cd caseData
	twoKeyLast := false
	forcedLimitAt := -1
	if replay != nil {
		cd = *replay
	} else {
		cd.Policy = rapid.SampledFrom(policies).Draw(t, "policy")
		cd.Blind = rapid.IntRange(0, 1).Draw(t, "blind") == 1
		cd.Ops = genOps(t)
		limitAt := -1
		if n := len(cd.Ops); n > 0 && cd.Ops[n-1].Cmd[0] == "\x00limit-at" {
			limitAt, _ = strconv.Atoi(cd.Ops[n-1].Cmd[1])
			cd.Ops = cd.Ops[:n-1]
			if rapid.IntRange(0, 2).Draw(t, "vpolicy") > 0 {
				cd.Policy = rapid.SampledFrom([]string{"volatile-lfu", "volatile-lru", "volatile-random"}).Draw(t, "vpol")
			}
		}
		forcedLimitAt = limitAt
		if n := len(cd.Ops); n > 0 && cd.Ops[n-1].Cmd[0] == "\x00two-key-last" {
			cd.Ops = cd.Ops[:n-1]
			twoKeyLast = true
			if rapid.IntRange(0, 2).Draw(t, "mpolicy") > 0 {
				cd.Policy = "noeviction"
			}
		}
	}
	lru := strings.HasSuffix(cd.Policy, "lru")
	lfu := strings.HasSuffix(cd.Policy, "lfu")
	volatile := strings.HasPrefix(cd.Policy, "volatile")
	pace := func() {
		if lru {
			time.Sleep(3 * time.Millisecond)
		}
	}
	// pass 1: twin without a limit learns the usage after every step and the size of every key
	twin, err := start("noeviction", 0)
	if err != nil {
		t.Fatalf("HARNESS-ERROR: %v", err)
	}
	defer func() { twin.Close(); twin.RemoveDir() }()
	usage := make([]int64, len(cd.Ops))
	var maxU int64
	for i, o := range cd.Ops {
		_ = twin.Select(o.DB)
		twin.Do(o.Cmd...)
		usage[i] = twin.MemoryUsed()
		if usage[i] > maxU {
			maxU = usage[i]
		}
	}
	if replay == nil {
		idx := rapid.IntRange(0, len(cd.Ops)-1).Draw(t, "limit_step")
		how := rapid.SampledFrom([]string{"below", "at", "above", "beyond", "at", "below"}).Draw(t, "limit_how")
		if twoKeyLast && len(cd.Ops) >= 2 && rapid.IntRange(0, 3).Draw(t, "mlimit") > 0 {
			idx, how = len(cd.Ops)-2, "above"
		}
		if forcedLimitAt >= 0 && forcedLimitAt < len(cd.Ops) && rapid.IntRange(0, 2).Draw(t, "slimit") > 0 {
			idx, how = forcedLimitAt, "at"
		}
		base := usage[idx]
		if base <= 0 {
			base = maxU
		}
		switch how {
		case "below":
			cd.Limit = uint64(max(base-1, 1))
		case "at":
			cd.Limit = uint64(max(base, 1))
		case "above":
			cd.Limit = uint64(base + 1)
		default:
			cd.Limit = uint64(maxU + 1000)
		}
		cd.LimitHow = fmt.Sprintf("%s the usage after step %d", how, idx)
	}
	journal(cd)
	s, err := start(cd.Policy, cd.Limit)
	if err != nil {
		t.Fatalf("HARNESS-ERROR: %v", err)
	}
	defer func() { s.Close(); s.RemoveDir() }()
	// a second twin follows exactly what the server under test accepted (for survivor comparison and sizes)
	ref, err := start("noeviction", 0)
	if err != nil {
		t.Fatalf("HARNESS-ERROR: %v", err)
	}
	defer func() { ref.Close(); ref.RemoveDir() }()
	var trace []string
	fail := func(format string, a ...any) {
		msg := fmt.Sprintf(format, a...)
		b, _ := json.MarshalIndent(map[string]any{"property": "C08", "case": cd, "trace": trace, "failure": msg}, "", " ")
		p := engine.WriteRaw("C08", "random", b)
		t.Fatalf("violation (replay %s): %s", p, msg)
	}
	reached := false
	for i, o := range cd.Ops {
		pace()
		_ = s.Select(o.DB)
		_ = ref.Select(o.DB)
		before := s.MemoryUsed()
		presentBefore := present(s)
		_ = s.Select(o.DB)
		// bookkeeping before the step (server-declared): frequency / idle time of every key
		freq := map[keyID]float64{}
		hasDeadline := map[keyID]bool{}
		for _, db := range dbs {
			_ = s.Select(db)
			for _, k := range obsKeys {
				id := keyID{db, k}
				if !presentBefore[id] {
					continue
				}
				if lfu {
					if r := s.Do("OBJECTFREQ", k); !r.Val.IsErr() {
						f, _ := r.Val.AsFloat()
						freq[id] = f
					}
				}
				if lru {
					if r := s.Do("OBJECTIDLETIME", k); !r.Val.IsErr() {
						f, _ := r.Val.AsFloat()
						freq[id] = -f // larger = more recent
					}
				}
				if r := s.Do("PEXPIRETIME", k); !r.Val.IsErr() {
					if n, _ := r.Val.AsInt(); n > 0 {
						hasDeadline[id] = true
					}
				}
			}
		}
		_ = s.Select(o.DB)
		atLimit := uint64(max(before, 0)) >= cd.Limit
		if atLimit {
			reached = true
		}
		r := s.Do(o.Cmd...)
		if r.Panic != "" {
			fail("step %d %q panicked: %s", i, o.Cmd, strings.SplitN(r.Panic, "\n", 2)[0])
		}
		if !waitIdle() {
			// the eviction pass that followed the command has not finished: does the server still answer?
			sut.HangTimeout = 20 * time.Second
			probe := s.Do("PTTL", keys[0])
			if strings.HasPrefix(probe.Panic, "HANG") {
				fail("%s: the eviction pass after step %d %q never finished, and the server no longer answers (%s)", cd.Policy, i, o.Cmd, probe.Panic)
			}
			fmt.Println("HARNESS-ERROR: cache goroutines did not become idle within 10 s (inconclusive)")
			return
		}
		after := s.MemoryUsed()
		if uint64(max(after, 0)) >= cd.Limit {
			reached = true
		}
		trace = append(trace, fmt.Sprintf("db%d %q -> %s (usage %d -> %d, limit %d)", o.DB, o.Cmd, trunc(r.String(), 50), before, after, cd.Limit))
		name := strings.ToUpper(o.Cmd[0])
		if cd.Policy == "noeviction" {
			if storing[name] {
				if atLimit && !r.Val.IsErr() {
					// LPOP/INCR… on a missing key store nothing; only judge commands that did store
					if !(name == "LPOP" && r.Val.IsNil()) {
						fail("noeviction: step %d %q was accepted (%s) although the reported usage %d was at or above the limit %d", i, o.Cmd, r.String(), before, cd.Limit)
					}
				}
				if !atLimit && r.Val.IsErr() && strings.Contains(strings.ToLower(r.Val.Str), "max memory") {
					fail("noeviction: step %d %q was refused (%s) although the reported usage %d was under the limit %d", i, o.Cmd, r.String(), before, cd.Limit)
				}
			}
			if (name == "DEL" || name == "FLUSHDB") && r.Val.IsErr() {
				fail("noeviction: %q must keep working at the limit but answered %s", o.Cmd, r.String())
			}
		}
		// the reference twin follows what was accepted
		if !r.Val.IsErr() {
			ref.Do(o.Cmd...)
		}
		// what disappeared without being asked to? Reading a key is an access too: it updates the cache
		// and can itself trigger an eviction, so observe until two consecutive observations agree.
		presentAfter := present(s)
		for round := 0; round < 6; round++ {
			if !waitIdle() {
				fmt.Println("HARNESS-ERROR: cache goroutines did not become idle within 10 s (inconclusive)")
				return
			}
			again := present(s)
			same := len(again) == len(presentAfter)
			for id := range again {
				if !presentAfter[id] {
					same = false
				}
			}
			presentAfter = again
			if same {
				break
			}
		}
		waitIdle()
		after = s.MemoryUsed()
		refPresent := present(ref)
		var evicted []keyID
		for id := range refPresent {
			if !presentAfter[id] {
				evicted = append(evicted, id)
			}
		}
		sort.Slice(evicted, func(a, b int) bool { return fmt.Sprint(evicted[a]) < fmt.Sprint(evicted[b]) })
		if len(evicted) > 0 {
			rec.Class("eviction-observed")
			if cd.Policy == "noeviction" {
				fail("noeviction: after step %d %q the keys %v are gone", i, o.Cmd, evicted)
			}
			var maxSize, sumSize int64
			for _, id := range evicted {
				if volatile {
					// the twin executed the same commands: it knows whether the key has a deadline now
					_ = ref.Select(id.db)
					rr := ref.Do("PEXPIRETIME", id.key)
					if n, _ := rr.Val.AsInt(); n <= 0 {
						fail("%s: step %d %q evicted %v, which has no expiry", cd.Policy, i, o.Cmd, id)
					}
				}
				sz := sizeOn(ref, id)
				sumSize += sz
				if sz > maxSize {
					maxSize = sz
				}
				// the evicted key disappears completely
				_ = s.Select(id.db)
				for _, q := range [][]string{{"GET", id.key}, {"TTL", id.key}, {"PEXPIRETIME", id.key}} {
					rr := s.Do(q...)
					if !(rr.Val.IsNil() || rr.Val.IsErr() || rr.Val.Canon() == ":-2") {
						fail("%s: evicted key %v still answers %q with %s", cd.Policy, id, q, rr.String())
					}
				}
				if lfu {
					if rr := s.Do("OBJECTFREQ", id.key); !rr.Val.IsErr() {
						fail("%s: evicted key %v still has eviction bookkeeping: OBJECTFREQ answers %s", cd.Policy, id, rr.String())
					}
				}
				// the reference twin drops it too, so that survivors stay comparable
				_ = ref.Select(id.db)
				ref.Do("DEL", id.key)
			}
			// only while the usage is at or above the limit: with all the evicted keys back the usage must have been there
			if !atLimit && uint64(max(after+sumSize, 0)) < cd.Limit {
				fail("%s: after step %d %q the keys %v were removed although the reported usage (%d before the step, %d with them back) never reached the limit %d", cd.Policy, i, o.Cmd, evicted, before, after+sumSize, cd.Limit)
			}
			// not further than necessary
			if uint64(max(after+maxSize, 0)) < cd.Limit {
				fail("%s: step %d %q evicted %v and left the usage at %d; even with the largest of them (%d bytes) back it would be under the limit %d, so eviction went on after the usage was under the limit", cd.Policy, i, o.Cmd, evicted, after, maxSize, cd.Limit)
			}
			// order among candidates of the same database
			if lfu || lru {
				for _, id := range evicted {
					fe, ok := freq[id]
					if !ok {
						continue
					}
					for sid := range presentAfter {
						fs, ok2 := freq[sid]
						if !ok2 || sid.db != id.db || (volatile && !hasDeadline[sid]) || touchedBy(o, sid) || touchedBy(o, id) {
							continue
						}
						// the harness's own reads are accesses too: between the bookkeeping snapshot and the
						// eviction each key may have been touched up to three more times (TYPE, digest reads),
						// and real-time stamps of back-to-back reads differ by microseconds
						slack := 3.0
						if lru {
							slack = 0.002
						}
						if fe > fs+slack {
							what := "was accessed more often"
							fid := "F-C08-lfu-order"
							if lru {
								what, fid = "was used more recently", "F-C08-lru-evicts-most-recent"
							}
							if findings.IsOpen(fid) {
								rec.Excluded(fid)
								continue
							}
							fail("%s: step %d %q evicted %v although it %s (%v) than the surviving candidate %v (%v)", cd.Policy, i, o.Cmd, id, what, fe, sid, fs)
						}
					}
				}
			}
		}
		// survivors read exactly as on the reference twin (keys that the reads of this very comparison
		// get evicted are judged in the next step)
		// Reading the values is an access: it changes the bookkeeping the policies decide by (and repairs stale
		// bookkeeping before the pressure can meet it). Half of the cases therefore compare the survivors after every
		// step, the other half only after the last one.
		if cd.Blind && i != len(cd.Ops)-1 {
			continue
		}
		ds, dr := s.TakeDigest(dbs, obsKeys), ref.TakeDigest(dbs, obsKeys)
		waitIdle()
		still := present(s)
		for k := range dr {
			parts := strings.SplitN(k, "/", 2)
			dbn, _ := strconv.Atoi(parts[0])
			if !still[keyID{dbn, parts[1]}] {
				delete(dr, k)
				delete(ds, k)
			}
		}
		if d := ds.Diff(dr); d != "" {
			fail("%s: after step %d %q the dataset differs from the twin that executed the same accepted commands (minus evicted keys): %s", cd.Policy, i, o.Cmd, d)
		}
	}
	b, _ := json.Marshal(cd)
	rec.Class("policy:" + cd.Policy)
	rec.Case(string(b), reached, map[string]any{"policy": cd.Policy, "limit": cd.Limit, "limit_chosen": cd.LimitHow, "steps": trace})
}

func touchedBy(o op, id keyID) bool {
	if o.DB != id.db {
		return false
	}
	for _, a := range o.Cmd[1:] {
		if a == id.key {
			return true
		}
	}
	return false
}

// sizeOn measures the accounted size of a key on the reference twin (usage delta of deleting it), restoring nothing:
// the caller deletes the key on the twin anyway.
func sizeOn(ref *sut.Server, id keyID) int64 {
	_ = ref.Select(id.db)
	before := ref.MemoryUsed()
	// dump and delete, then the caller's DEL is a no-op
	ref.Do("DEL", id.key)
	return before - ref.MemoryUsed()
}

func journal(cd caseData) {
	b, _ := json.MarshalIndent(map[string]any{"property": "C08", "case": cd, "failure": "the check process died while this case was running"}, "", " ")
	_ = os.WriteFile(filepath.Join(".", "inflight.json"), b, 0o644)
}

func trunc(s string, n int) string {
	if len(s) > n {
		return s[:n] + "…"
	}
	return s
}

func TestRandom(t *testing.T) {
	if common.ReplayPath() != "" {
		t.Skip()
	}
	defer common.Verdict(t, rec, "random")
	rapid.Check(t, func(t *rapid.T) { runCase(t, nil) })
}

func TestReplay(t *testing.T) {
	p := common.ReplayPath()
	if p == "" {
		t.Skip()
	}
	var rf struct {
		Case caseData `json:"case"`
	}
	if err := common.LoadJSON(p, &rf); err != nil {
		t.Fatalf("HARNESS-ERROR: %v", err)
	}
	defer func() {
		if t.Failed() {
			fmt.Printf("VIOLATION property=C08 replay=%s\n", p)
		}
	}()
	rapid.Check(t, func(t *rapid.T) { runCase(t, &rf.Case) })
}

var _ = strconv.Itoa
