package c14

import (
	"testing"

	"verifharness/common"
	"verifharness/evidence"
	"verifharness/gen"
)

var rec *evidence.Recorder
var fam *common.Family

func TestMain(m *testing.M) {
	rec = evidence.New("C14", "exploration",
		"(1) exhaustive enumeration of every sequence of length ≤ 2 (quick) / ≤ 3 (thorough) over a fixed alphabet of concrete hash commands; (2) rapid state machine (1–30 steps) over the 14 hash commands (HSET/HSETNX with 1–3 pairs incl. duplicate fields, HGET/HMGET, HGETALL, HKEYS, HVALS, HLEN, HEXISTS, HSTRLEN, HDEL, HINCRBY, HINCRBYFLOAT, HRANDFIELD with boundary counts and WITHVALUES), wrong arities, keys of other types, DEL, keys {a,b,c}; fields are drawn mostly from the hash's current fields. "+
			"After every command the reply is compared by meaning with a sequential reference model and the state of every key (TYPE, full read, PEXPIRETIME) is compared. A case is one command sequence; non-trivial = ≥ 2 commands address the same key, or some command was answered with an error; distinct = FNV-64 of the command sequence.",
		"embedded API (ExecuteCommand) is the observation point; wire framing is C12's business",
		"details the property and SugarDB's docs leave open are not asserted (see /verif/SPEC.md)")
	fam = &common.Family{Rec: rec, Keys: gen.Keys, Gen: gen.HashCmd, Alphabet: enumAlphabet, MaxSteps: 30}
	common.Main(m, rec)
}

func enumAlphabet(thorough bool) [][]string {
	al := [][]string{
		{"HSET", "a", "f", "v"}, {"HSET", "a", "f", "w", "g", "1"}, {"HSET", "a", "g", ""}, {"HSETNX", "a", "f", "n"}, {"HSETNX", "a", "h", "n"},
		{"HGET", "a", "f"}, {"HMGET", "a", "f", "g", "z"}, {"HGETALL", "a"}, {"HKEYS", "a"}, {"HVALS", "a"}, {"HLEN", "a"}, {"HEXISTS", "a", "f"}, {"HEXISTS", "a", "g"},
		{"HSTRLEN", "a", "f"}, {"HDEL", "a", "f"}, {"HDEL", "a", "f", "g", "f"}, {"HINCRBY", "a", "g", "5"}, {"HINCRBY", "a", "f", "1"}, {"HINCRBYFLOAT", "a", "g", "0.5"},
		{"HRANDFIELD", "a"}, {"HRANDFIELD", "a", "2"}, {"HRANDFIELD", "a", "-3", "WITHVALUES"}, {"SET", "a", "str"}, {"DEL", "a"}, {"HSET", "a", "f"}, {"HGET", "b", "f"},
	}
	if thorough {
		al = append(al, [][]string{
			{"HSET", "b", "f", "10"}, {"HINCRBY", "b", "f", "9223372036854775807"}, {"HSET", "a", "x", "a\r\nb"}, {"HGET", "a", "x"}, {"HSETNX", "b", "f", "2", "g", "3"}, {"HDEL", "b", "f"},
			{"HLEN", "b"}, {"HGETALL", "b"}, {"RPUSH", "b", "e"}, {"HINCRBYFLOAT", "a", "f", "1"}, {"HRANDFIELD", "a", "0"}, {"HRANDFIELD", "a", "5", "WITHVALUES"}, {"HSTRLEN", "a", "g", "z"}, {"HKEYS", "b"},
		}...)
	}
	return al
}

func TestCorpus(t *testing.T) { fam.Corpus(t) }
func TestRandom(t *testing.T) { fam.Random(t) }
func TestEnum(t *testing.T)   { fam.Enum(t) }
func TestReplay(t *testing.T) { fam.Replay(t) }
