package c09

import (
	"encoding/json"
	"fmt"
	"os"
	"path/filepath"
	"strings"
	"sync"
	"testing"
	"time"

	"github.com/echovault/sugardb/verifhook"
	"pgregory.net/rapid"

	"verifharness/common"
	"verifharness/engine"
	"verifharness/evidence"
	"verifharness/findings"
	"verifharness/gen"
	"verifharness/model"
	"verifharness/sut"
)

var rec *evidence.Recorder

var keys = []string{"a", "b", "c"}
var dbs = []int{0, 1, 3, 12}

func TestMain(m *testing.M) {
	rec = evidence.New("C09", "fault_enumeration",
		"rapid-generated write workloads (3–14 operations, all five families, databases {0,1,3,12}, TCP and embedded callers, absolute and relative expiries) with REWRITEAOF inserted at drawn positions — including before the first write, twice in a row and after deletes/overwrites. "+
			"After every acknowledged command the digest D_i of all databases is recorded and the data directory is imaged. Faults enumerated per workload: a process crash at every failpoint (hook H4) of every rewrite — rewrite.begin, state copied, preamble truncated / written / fsynced, log truncate begin / truncated / fsynced, rewrite.done — and at every command boundary; each image must restore to exactly the dataset acknowledged when the rewrite began (a rewrite changes no data), "+
			"boundary image i to D_i. Then: clean shutdown + restart = D_n; a second generation (more writes and another rewrite on the recovered server, virtual down time in between) + restart reproduces its own recorded digest. "+
			"Writer-in-window leg: for a generated dataset and a generated writer (1–3 write commands) the rewrite is run once per failpoint P of the rewrite with the writer released while the rewriting goroutine is parked at P; when rewrite and writer have returned a restart must serve the final dataset, and a crash image at any later failpoint must restore to the dataset at the start of the rewrite plus a prefix of the writer's commands. "+
			"A case is one workload with all its faults (or one dataset × writer with all release points); non-trivial = at least one rewrite happens after a write and is followed by a restore; distinct = FNV-64 of the workload.",
		"a process crash is modelled by copying the data directory at the failpoint; power loss below file-length granularity is not modelled",
		"the concurrent writer is interleaved with the rewrite at failpoint granularity (between its file operations), not inside a file operation",
		"digest = TYPE, full read and PEXPIRETIME of keys {a,b,c} in databases {0,1,3,12} through the embedded API")
	common.Main(m, rec)
}

type op struct {
	Actor   string   `json:"actor"` // "emb" | "tcp"
	Select  *int     `json:"select,omitempty"`
	Cmd     []string `json:"cmd,omitempty"`
	Advance int64    `json:"advance,omitempty"`
}

type workload struct {
	Sync string `json:"sync"`
	Ops  []op   `json:"ops"`
	Gen2 []op   `json:"gen2"`
	// AdvanceBetween: virtual milliseconds that pass while the server is down.
	AdvanceBetween int64 `json:"advance_between"`
}

func genCmd(t *rapid.T, m *model.Model) []string {
	switch rapid.IntRange(0, 9).Draw(t, "cmdsrc") {
	case 0, 1, 2, 3:
		return gen.WriterCmd(t, m, keys)
	case 4:
		k := gen.Key(t, keys, "k")
		now := m.NowMs()
		return rapid.SampledFrom([][]string{
			{"SET", k, "v", "PXAT", fmt.Sprint(now + 100000)}, {"PEXPIREAT", k, fmt.Sprint(now + 50000)}, {"EXPIREAT", k, fmt.Sprint(now/1000 + 500)},
			{"SET", k, "w", "EX", "100"}, {"EXPIRE", k, "100"}, {"PEXPIRE", k, "1500"}, {"GETEX", k, "PX", "90000"}, {"PERSIST", k}, {"GETEX", k, "PERSIST"},
		}).Draw(t, "expcmd")
	case 5:
		return rapid.SampledFrom([][]string{{"FLUSHDB"}, {"FLUSHALL"}, {"DEL", "a", "b"}, {"RENAME", "a", "b"}, {"MSET", "a", "1", "b", "2"}}).Draw(t, "multi")
	default:
		c := gen.AnyFamilyCmd(t, m, keys)
		if c[0] == "SPOP" && !findings.IsOpen("F-C02-spop-replayed") {
			return c
		}
		return c
	}
}

func genOps(t *rapid.T, label string, lo, hi int, s *sut.Server) []op {
	n := rapid.IntRange(lo, hi).Draw(t, label+"_n")
	ops := make([]op, 0, n)
	m := model.New(func() int64 { return s.Clock.Now().UnixMilli() })
	for i := 0; i < n; i++ {
		actor := rapid.SampledFrom([]string{"emb", "emb", "tcp"}).Draw(t, "actor")
		if rapid.IntRange(0, 4).Draw(t, "sel") == 0 {
			db := rapid.SampledFrom(dbs).Draw(t, "db")
			ops = append(ops, op{Actor: actor, Select: &db})
			continue
		}
		if rapid.IntRange(0, 4).Draw(t, "rewrite") == 0 {
			ops = append(ops, op{Actor: actor, Cmd: []string{"REWRITEAOF"}})
			if rapid.IntRange(0, 3).Draw(t, "twice") == 0 {
				ops = append(ops, op{Actor: actor, Cmd: []string{"REWRITEAOF"}})
			}
			continue
		}
		ops = append(ops, op{Actor: actor, Cmd: sanitize(genCmd(t, m))})
	}
	if label == "ops" && rapid.IntRange(0, 3).Draw(t, "scenario") == 0 {
		// a key that is volatile when the log is rewritten and whose deadline is removed or moved afterwards (the
		// change lives in the log only): a restart after the original deadline must still serve it
		k := gen.Key(t, keys, "sk")
		ops = append(ops, op{Actor: "emb", Cmd: rapid.SampledFrom([][]string{{"SET", k, "vol", "PX", "1500"}, {"SET", k, "vol", "EX", "100"}, {"RPUSH", k, "e1", "e2"}, {"SADD", k, "m1"}}).Draw(t, "sset")})
		ops = append(ops, op{Actor: "emb", Cmd: []string{"PEXPIRE", k, rapid.SampledFrom([]string{"1500", "90000"}).Draw(t, "spx")}})
		ops = append(ops, op{Actor: "emb", Cmd: []string{"REWRITEAOF"}})
		ops = append(ops, op{Actor: "emb", Cmd: rapid.SampledFrom([][]string{{"PERSIST", k}, {"PEXPIRE", k, "900000000"}, {"GETEX", k, "PERSIST"}, {"EXPIRE", k, "9000000"}}).Draw(t, "skeep")})
	}
	return ops
}

func sanitize(cmd []string) []string {
	out := make([]string, len(cmd))
	for i, a := range cmd {
		out[i] = strings.NewReplacer("\r", "_", "\n", "_").Replace(a)
	}
	return out
}

// point handler state (one case at a time per process)
var (
	pmu      sync.Mutex
	pHandler func(name string)
)

func init() {
	verifhook.SetPointHandler(func(name string) {
		pmu.Lock()
		h := pHandler
		pmu.Unlock()
		if h != nil {
			h(name)
		}
	})
}

func setPoint(h func(string)) { pmu.Lock(); pHandler = h; pmu.Unlock() }

type image struct {
	Dir    string
	Point  string
	After  int // number of acknowledged commands when the image was taken
	During int // index (1-based) of the command in flight, 0 = at a boundary
}

type violation struct{ msg string }

func (c *caseRun) restore(dir string, clockMs int64) (sut.Digest, error) {
	// restore works on a copy: recovery may repair (truncate) the log
	tmp := sut.NewScratchDir("restore")
	defer os.RemoveAll(tmp)
	if err := sut.CopyDir(dir, tmp); err != nil {
		return nil, err
	}
	clk := verifhook.NewVirtualClock(time.UnixMilli(clockMs))
	r, err := sut.New(sut.Opts{DataDir: tmp, RestoreAOF: true, AOFSync: "no", Clock: clk})
	if err != nil {
		return nil, fmt.Errorf("start-up failed: %v", err)
	}
	defer r.Close()
	rec.Add("images_restored", 1)
	return r.TakeDigest(dbs, keys), nil
}

type caseRun struct {
	w      workload
	root   string
	images []image
	D      []sut.Digest
}

func logPath(dir string) string { return filepath.Join(dir, "aof", "log.aof") }

func runCase(t *rapid.T, replay *workload) {
	root := sut.NewScratchDir("c02")
	defer os.RemoveAll(root)
	dataDir := filepath.Join(root, "data")
	_ = os.MkdirAll(dataDir, 0o755)
	port := sut.FreePort()
	var w workload
	if replay != nil {
		w = *replay
	} else {
		syncs := []string{"always", "no", "always", "no"}
		if evidence.Thorough() {
			syncs = append(syncs, "everysec")
		}
		w.Sync = rapid.SampledFrom(syncs).Draw(t, "sync")
	}
	s, err := sut.New(sut.Opts{DataDir: dataDir, AOFSync: w.Sync, Port: port})
	if err != nil {
		t.Fatalf("HARNESS-ERROR: %v", err)
	}
	conn, err := sut.Dial(port)
	if err != nil {
		s.Close()
		t.Fatalf("HARNESS-ERROR: dial: %v", err)
	}
	conn.Do("PING")
	if replay == nil {
		w.Ops = genOps(t, "ops", 3, 14, s)
		w.Gen2 = genOps(t, "gen2", 1, 5, s)
		w.AdvanceBetween = rapid.SampledFrom([]int64{0, 2000, 200000, 200000}).Draw(t, "advance_between")
	}
	c := &caseRun{w: w, root: root}
	fail := func(format string, a ...any) {
		msg := fmt.Sprintf(format, a...)
		b, _ := json.MarshalIndent(map[string]any{"property": "C09", "workload": w, "failure": msg}, "", " ")
		p := engine.WriteRaw("C09", "random", b)
		conn.Close()
		s.Close()
		t.Fatalf("violation (replay %s): %s", p, msg)
	}
	snap := func(point string, after, during int) {
		dir := filepath.Join(root, fmt.Sprintf("img-%d", len(c.images)))
		if err := sut.CopyDir(dataDir, dir); err == nil {
			c.images = append(c.images, image{Dir: dir, Point: point, After: after, During: during})
		}
	}
	// the digest commands themselves must not disturb the embedded connection's selected database
	embDB := 0
	digest := func() sut.Digest {
		d := s.TakeDigest(dbs, keys)
		_ = s.Select(embDB)
		return d
	}
	c.D = append(c.D, digest())
	snap("boundary", 0, 0)
	ncmd := 0
	writes := 0
	rewrites := 0
	lastLogBefore := int64(0)
	var syncedLen int64 = -1
	for _, o := range w.Ops {
		if o.Select != nil {
			if o.Actor == "tcp" {
				conn.Do("SELECT", fmt.Sprint(*o.Select))
			} else {
				_ = s.Select(*o.Select)
				embDB = *o.Select
			}
			continue
		}
		lastLogBefore = sut.FileSize(logPath(dataDir))
		if o.Cmd[0] == "REWRITEAOF" {
			rewrites++
			setPoint(func(name string) {
				// ("aof.synced" is not one of them: the truncation syncs without that failpoint, and the event can
				// come from the once-a-second sync goroutine of a server of an earlier case that has just been shut
				// down — an image labelled with it would be taken at an unknown position of this rewrite.)
				if strings.HasPrefix(name, "rewrite.") || strings.HasPrefix(name, "pre.") || strings.HasPrefix(name, "aof.trunc") {
					snap(name, ncmd, ncmd+1)
				}
			})
		}
		var rep sut.Reply
		if o.Actor == "tcp" {
			rep = conn.Do(o.Cmd...)
		} else {
			rep = s.Do(o.Cmd...)
		}
		setPoint(nil)
		if rep.Panic != "" {
			fail("command %q panicked: %s", o.Cmd, strings.SplitN(rep.Panic, "\n", 2)[0])
		}
		if !rep.Val.IsErr() {
			writes++
		}
		ncmd++
		c.D = append(c.D, digest())
		snap("boundary", ncmd, 0)
	}
	finalLen := sut.FileSize(logPath(dataDir))
	nowMs := s.Clock.Now().UnixMilli()
	conn.Close()
	s.Close()
	time.Sleep(time.Millisecond)
	check := func(what string, dir string, clockMs int64, allowed ...int) sut.Digest {
		got, err := c.restore(dir, clockMs)
		if err != nil {
			fail("%s: %v", what, err)
		}
		var diffs []string
		for _, idx := range allowed {
			d := got.Diff(c.D[idx])
			if d == "" {
				return got
			}
			diffs = append(diffs, fmt.Sprintf("vs D_%d: %s", idx, d))
		}
		fail("%s: restored dataset %s is none of the allowed prefixes (%s)", what, got.Canon(), strings.Join(diffs, " | "))
		return nil
	}
	// (5) clean shutdown
	check("clean shutdown and restart", dataDir, nowMs, ncmd)
	rec.Add("crash_points", 1)
	// (1)+(2) images
	for _, im := range c.images {
		if im.During == 0 {
			check(fmt.Sprintf("process crash after command %d (boundary)", im.After), im.Dir, nowMs, im.After)
		} else {
			checkRewriteImage(c, im, nowMs, fail)
		}
		rec.Add("crash_points", 1)
	}
	var tornDir string
	_ = finalLen
	_ = lastLogBefore
	_ = syncedLen
	// (6) second generation on the recovered (torn, if any) directory
	g2dir := dataDir
	base := ncmd
	if tornDir != "" {
		g2dir = tornDir
		base = ncmd - 1
	}
	clk := verifhook.NewVirtualClock(time.UnixMilli(nowMs + w.AdvanceBetween))
	expectAfterRestart := c.D[base]
	r, err := sut.New(sut.Opts{DataDir: g2dir, RestoreAOF: true, AOFSync: w.Sync, Clock: clk})
	if err != nil {
		fail("second generation: start-up failed: %v", err)
	}
	got := r.TakeDigest(dbs, keys)
	// keys whose deadline passed while the server was down are gone; everything else is as recorded
	want := sut.Digest{}
	for k, ks := range expectAfterRestart {
		if ks.Deadline > 0 && ks.Deadline < clk.Now().UnixMilli() {
			continue
		}
		want[k] = ks
	}
	if d := got.Diff(want); d != "" {
		if id := explainRestart(w, d); id != "" {
			rec.Excluded(id)
		} else {
			r.Close()
			fail("restart after %d ms of down time: %s (restored %s, expected %s)", w.AdvanceBetween, d, got.Canon(), want.Canon())
		}
	}
	emb2 := 0
	for _, o := range w.Gen2 {
		if o.Select != nil {
			_ = r.Select(*o.Select)
			emb2 = *o.Select
			continue
		}
		_ = r.Select(emb2)
		r.Do(o.Cmd...)
	}
	e2 := r.TakeDigest(dbs, keys)
	now2 := clk.Now().UnixMilli()
	r.Close()
	time.Sleep(time.Millisecond)
	got2, err := c.restore(g2dir, now2)
	if err != nil {
		fail("second generation restart: %v", err)
	}
	if d := got2.Diff(e2); d != "" {
		if id := explainRestart(w, d); id != "" {
			rec.Excluded(id)
		} else {
			fail("writes acknowledged after recovery did not survive the next restart: %s (restored %s, expected %s)", d, got2.Canon(), e2.Canon())
		}
	}
	rec.Add("server_restarts", 3)
	b, _ := json.Marshal(w)
	sample := map[string]any{"sync": w.Sync, "ops": renderOps(w.Ops), "gen2": renderOps(w.Gen2), "advance_between_ms": w.AdvanceBetween, "images": len(c.images)}
	sample["rewrites"] = rewrites
	rec.Add("rewrites", int64(rewrites))
	rec.Case(string(b), writes >= 1 && rewrites >= 1, sample)
}

// explainRestart attributes a restart deviation to an open finding (random pops and relative expiries
// are logged verbatim and re-evaluated at replay time).
func explainRestart(w workload, diff string) string {
	has := func(names ...string) bool {
		for _, o := range append(append([]op{}, w.Ops...), w.Gen2...) {
			if o.Cmd == nil {
				continue
			}
			for _, n := range names {
				if strings.EqualFold(o.Cmd[0], n) {
					return true
				}
			}
		}
		return false
	}
	if findings.IsOpen("F-C02-spop-replayed") && has("SPOP") && strings.Contains(diff, "set") {
		return "F-C02-spop-replayed"
	}
	if findings.IsOpen("F-C02-relative-expiry-replayed") && w.AdvanceBetween > 0 && (strings.Contains(diff, "(deadline)") || strings.Contains(diff, "(liveness)")) {
		rel := false
		for _, o := range append(append([]op{}, w.Ops...), w.Gen2...) {
			if o.Cmd == nil {
				continue
			}
			switch strings.ToUpper(o.Cmd[0]) {
			case "EXPIRE", "PEXPIRE":
				rel = true
			case "SET", "GETEX":
				for _, a := range o.Cmd {
					if u := strings.ToUpper(a); u == "EX" || u == "PX" {
						rel = true
					}
				}
			}
		}
		if rel {
			return "F-C02-relative-expiry-replayed"
		}
	}
	return ""
}

func renderOps(ops []op) []string {
	out := []string{}
	for _, o := range ops {
		if o.Select != nil {
			out = append(out, fmt.Sprintf("%s select %d", o.Actor, *o.Select))
		} else {
			out = append(out, fmt.Sprintf("%s %q", o.Actor, o.Cmd))
		}
	}
	return out
}

func TestRandom(t *testing.T) {
	if common.ReplayPath() != "" {
		t.Skip()
	}
	defer common.Verdict(t, rec, "random")
	rapid.Check(t, func(t *rapid.T) { runCase(t, nil) })
}

func TestReplay(t *testing.T) {
	p := common.ReplayPath()
	if p == "" {
		t.Skip()
	}
	var rf struct {
		Leg      string      `json:"leg"`
		Workload workload    `json:"workload"`
		Window   *windowCase `json:"window"`
	}
	if err := common.LoadJSON(p, &rf); err != nil {
		t.Fatalf("HARNESS-ERROR: %v", err)
	}
	defer func() {
		if t.Failed() {
			fmt.Printf("VIOLATION property=C09 replay=%s\n", p)
		}
	}()
	if rf.Leg == "window" && rf.Window != nil {
		rapid.Check(t, func(t *rapid.T) { windowProperty(t, rf.Window) })
		return
	}
	rapid.Check(t, func(t *rapid.T) { runCase(t, &rf.Workload) })
}

// rewriteWindow: failpoints at which the files on disk are between the old and the new generation.
var rewriteWindow = map[string]bool{"pre.truncated": true, "pre.written": true, "pre.synced": true, "rewrite.preamble-done": true, "aof.trunc.begin": true}

func checkRewriteImage(c *caseRun, im image, nowMs int64, fail func(string, ...any)) {
	got, err := c.restore(im.Dir, nowMs)
	what := fmt.Sprintf("process crash at failpoint %s inside the rewrite issued as command %d", im.Point, im.During)
	if err != nil {
		fail("%s: %v", what, err)
	}
	d := got.Diff(c.D[im.After])
	if d == "" {
		return
	}
	if rewriteWindow[im.Point] && findings.IsOpen("F-C09-rewrite-not-crash-atomic") {
		rec.Excluded("F-C09-rewrite-not-crash-atomic")
		return
	}
	fail("%s: restored dataset %s is not the dataset acknowledged before the rewrite began (%s)", what, got.Canon(), d)
}
