package c09

import (
	"encoding/json"
	"fmt"
	"os"
	"path/filepath"
	"strings"
	"testing"
	"time"

	"pgregory.net/rapid"

	"verifharness/common"
	"verifharness/engine"
	"verifharness/evidence"
	"verifharness/findings"
	"verifharness/model"
	"verifharness/sut"
)

// ---- writer inside the rewrite window ----
//
// A rewrite is a sequence of file operations separated by failpoints. For every failpoint P of the rewrite the
// case is run once with a concurrent writer that issues its commands while the rewriting goroutine is parked
// at P (if the writer cannot proceed there because the server makes it wait, the rewrite continues after a
// short grace period and the writer finishes whenever it is let through). Every command of the writer is
// acknowledged; once the rewrite and the writer have both returned, a restart must serve the final dataset,
// and a crash image taken at any later failpoint must restore to the dataset at the start of the rewrite plus
// a prefix of the writer's commands.

type windowCase struct {
	Sync   string   `json:"sync"`
	Setup  []op     `json:"setup"`
	Writer []op     `json:"writer"`
	Points []string `json:"points,omitempty"` // failpoints at which the writer is released (empty = all seen)
	Failed string   `json:"failed_point,omitempty"`
}

func isRewritePoint(name string) bool {
	return strings.HasPrefix(name, "rewrite.") || strings.HasPrefix(name, "pre.") || strings.HasPrefix(name, "aof.trunc")
}

func runOps(s *sut.Server, ops []op, embDB *int) {
	for _, o := range ops {
		if o.Select != nil {
			_ = s.Select(*o.Select)
			*embDB = *o.Select
			continue
		}
		s.Do(o.Cmd...)
	}
}

func genWindowOps(t *rapid.T, label string, lo, hi int, s *sut.Server) []op {
	n := rapid.IntRange(lo, hi).Draw(t, label+"_n")
	ops := make([]op, 0, n)
	m := model.New(func() int64 { return s.Clock.Now().UnixMilli() })
	for i := 0; i < n; i++ {
		if rapid.IntRange(0, 5).Draw(t, "sel") == 0 {
			db := rapid.SampledFrom(dbs).Draw(t, "db")
			ops = append(ops, op{Actor: "emb", Select: &db})
			continue
		}
		ops = append(ops, op{Actor: "emb", Cmd: sanitize(genCmd(t, m))})
	}
	return ops
}

// runWindow runs one (case, point) pair; point "" is the dry pass that only collects the failpoint names.
func runWindow(w windowCase, point string) (points []string, failure string) {
	root := sut.NewScratchDir("c09w")
	defer os.RemoveAll(root)
	dataDir := filepath.Join(root, "data")
	_ = os.MkdirAll(dataDir, 0o755)
	s, err := sut.New(sut.Opts{DataDir: dataDir, AOFSync: w.Sync})
	if err != nil {
		return nil, "HARNESS-ERROR: " + err.Error()
	}
	closed := false
	defer func() {
		if !closed {
			s.Close()
		}
	}()
	embDB := 0
	runOps(s, w.Setup, &embDB)
	_ = s.Select(0)
	dBefore := s.TakeDigest(dbs, keys)
	_ = s.Select(0)

	type img struct {
		dir, point string
	}
	var images []img
	var wDigests []sut.Digest // dataset after the writer's i-th command (recorded by the writer itself)
	writerDone := make(chan struct{})
	released := false
	runWriter := func() {
		defer close(writerDone)
		db := 0
		for _, o := range w.Writer {
			if o.Select != nil {
				db = *o.Select
				continue
			}
			// the embedded connection's database is shared state: select right before each command
			_ = s.Select(db)
			rep := s.Do(o.Cmd...)
			if rep.Panic != "" {
				continue
			}
		}
	}
	setPoint(func(name string) {
		if !isRewritePoint(name) {
			return
		}
		points = append(points, name)
		if point == "" {
			return
		}
		if released {
			dir := filepath.Join(root, fmt.Sprintf("img-%d", len(images)))
			if sut.CopyDir(dataDir, dir) == nil {
				images = append(images, img{dir, name})
			}
			return
		}
		if name == point {
			released = true
			go runWriter()
			select {
			case <-writerDone:
			case <-time.After(60 * time.Millisecond):
				rec.Add("writer_made_to_wait", 1)
			}
		}
	})
	rep := s.Do("REWRITEAOF")
	setPoint(nil)
	if rep.Panic != "" {
		return points, "REWRITEAOF panicked: " + strings.SplitN(rep.Panic, "\n", 2)[0]
	}
	if rep.Val.IsErr() {
		return points, "REWRITEAOF failed: " + rep.Val.Str
	}
	if point == "" {
		return points, ""
	}
	if !released {
		return points, "" // the point did not occur in this run (e.g. nothing to truncate)
	}
	select {
	case <-writerDone:
	case <-time.After(sut.Patience(15 * time.Second)):
		return points, fmt.Sprintf("deadlock: the writer released at failpoint %s had not returned 15 s after REWRITEAOF returned", point)
	}
	_ = wDigests
	_ = s.Select(0)
	dFinal := s.TakeDigest(dbs, keys)
	nowMs := s.Clock.Now().UnixMilli()
	s.Close()
	closed = true
	time.Sleep(time.Millisecond)
	c := &caseRun{}
	got, err := c.restore(dataDir, nowMs)
	if err != nil {
		return points, fmt.Sprintf("writer released at %s: restart after rewrite and writer returned: %v", point, err)
	}
	if d := got.Diff(dFinal); d != "" {
		return points, fmt.Sprintf("writer released at failpoint %s: every command was acknowledged and the rewrite returned, but a restart serves %s instead of %s (%s)", point, got.Canon(), dFinal.Canon(), d)
	}
	// crash images taken at later failpoints: dataset at rewrite start plus a prefix of the writer's commands
	if len(images) > 0 {
		allowed := prefixDigests(w, dBefore)
		for _, im := range images {
			g, err := c.restore(im.dir, nowMs)
			if err != nil {
				return points, fmt.Sprintf("writer released at %s, crash at %s: %v", point, im.point, err)
			}
			ok := false
			for _, a := range allowed {
				if g.Diff(a) == "" {
					ok = true
					break
				}
			}
			if !ok {
				if rewriteWindow[im.point] && findings.IsOpen("F-C09-rewrite-not-crash-atomic") {
					rec.Excluded("F-C09-rewrite-not-crash-atomic")
					continue
				}
				return points, fmt.Sprintf("writer released at failpoint %s, process crash at failpoint %s: restored dataset %s is not the dataset at the start of the rewrite plus a prefix of the writer's %d commands", point, im.point, g.Canon(), len(w.Writer))
			}
			rec.Add("crash_points", 1)
		}
	}
	return points, ""
}

// prefixDigests computes, on a scratch server without persistence, the dataset after the setup and each prefix of the writer.
func prefixDigests(w windowCase, dBefore sut.Digest) []sut.Digest {
	out := []sut.Digest{dBefore}
	s, err := sut.New(sut.Opts{})
	if err != nil {
		return out
	}
	defer func() { s.Close(); s.RemoveDir() }()
	embDB := 0
	runOps(s, w.Setup, &embDB)
	db := 0
	for _, o := range w.Writer {
		if o.Select != nil {
			db = *o.Select
			continue
		}
		_ = s.Select(db)
		s.Do(o.Cmd...)
		out = append(out, s.TakeDigest(dbs, keys))
	}
	return out
}

func windowProperty(t *rapid.T, replay *windowCase) {
	var w windowCase
	if replay != nil {
		w = *replay
	} else {
		probe, err := sut.New(sut.Opts{})
		if err != nil {
			t.Fatalf("HARNESS-ERROR: %v", err)
		}
		w.Sync = rapid.SampledFrom([]string{"always", "no"}).Draw(t, "sync")
		w.Setup = genWindowOps(t, "setup", 0, 6, probe)
		w.Writer = genWindowOps(t, "writer", 1, 3, probe)
		probe.Close()
		probe.RemoveDir()
	}
	hasRandom := false
	for _, o := range append(append([]op{}, w.Setup...), w.Writer...) {
		if o.Cmd != nil && (strings.EqualFold(o.Cmd[0], "SPOP") || strings.EqualFold(o.Cmd[0], "REWRITEAOF")) {
			hasRandom = true
		}
	}
	if hasRandom {
		// the prefix digests are computed on a second server: random pops would differ between the two
		rec.Class("window: skipped (random pop)")
		return
	}
	points := w.Points
	if len(points) == 0 {
		var msg string
		points, msg = runWindow(w, "")
		if msg != "" {
			failWindow(t, w, "", msg)
		}
	}
	seen := map[string]bool{}
	for _, p := range points {
		if seen[p] {
			continue
		}
		seen[p] = true
		_, msg := runWindow(w, p)
		if strings.HasPrefix(msg, "HARNESS-ERROR") {
			t.Fatalf("%s", msg)
		}
		if msg != "" {
			failWindow(t, w, p, msg)
		}
		rec.Add("writer_release_points", 1)
	}
	b, _ := json.Marshal(w)
	rec.Case("window:"+string(b), len(w.Setup) > 0, map[string]any{"leg": "writer-in-window", "sync": w.Sync, "setup": renderOps(w.Setup), "writer": renderOps(w.Writer), "release_points": len(seen)})
}

func failWindow(t *rapid.T, w windowCase, point, msg string) {
	w.Failed = point
	if point != "" {
		w.Points = []string{point}
	}
	b, _ := json.MarshalIndent(map[string]any{"property": "C09", "leg": "window", "window": w, "failure": msg}, "", " ")
	p := engine.WriteRaw("C09", "window", b)
	t.Fatalf("violation (replay %s): %s", p, msg)
}

func TestWriterInWindow(t *testing.T) {
	if common.ReplayPath() != "" {
		t.Skip()
	}
	_ = evidence.Thorough
	defer common.Verdict(t, rec, "window")
	rapid.Check(t, func(t *rapid.T) { windowProperty(t, nil) })
}
