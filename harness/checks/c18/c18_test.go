package c18

import (
	"encoding/json"
	"fmt"
	"sort"
	"strconv"
	"strings"
	"sync/atomic"
	"testing"
	"time"

	"pgregory.net/rapid"

	"verifharness/acl"
	"verifharness/common"
	"verifharness/engine"
	"verifharness/evidence"
	"verifharness/findings"
	"verifharness/resp"
	"verifharness/sut"
)

var rec *evidence.Recorder

func TestMain(m *testing.M) {
	rec = evidence.New("C18", "exploration",
		"rapid state machine (3–30 steps) over three subscriber connections, one publisher and one observer connection of an in-process server: SUBSCRIBE / PSUBSCRIBE / UNSUBSCRIBE / PUNSUBSCRIBE with 0–3 channels or glob patterns (a, b, ab, c; a*, ?b, [ab]*, *b, c?), PUBLISH of single messages and bursts of 2–300 messages from one publisher, PUBSUB CHANNELS [pattern], NUMSUB, NUMPAT. "+
			"Oracle: a reference subscription table. After every publish each subscriber is drained up to a sentinel published on a private channel of that connection (plus a settle period); then per connection: the payloads received for one (publisher, channel) are the published sequence, in order, exactly once when exactly one of the connection's subscriptions matches, between 1 and k copies each (still in order per copy stream) when k subscriptions (channel and patterns) match, and nothing when none matches or after unsubscribing; "+
			"subscribe requests are confirmed once per channel with the connection's running subscription count; unsubscribe requests once per channel actually left; CHANNELS / NUMSUB / NUMPAT equal the table. A message is declared missing only after 5 s on an otherwise idle server. "+
			"A case is one history; non-trivial = at least two subscribers with different subscription sets and a publish after an unsubscribe, or a burst of ≥ 50; distinct = FNV-64 of the history.",
		"TCP subscribers only (the embedded subscriber API is not exercised)",
		"reordering inside a burst depends on the Go scheduler: the check detects it when it happens; it never requires that a non-deterministic effect shows",
		"floods of 16 000 one-kilobyte messages published while no subscriber reads for 150 ms (publisher and subscribers on goroutines of their own); patterns without a wildcard whose text equals a channel name")
	common.Main(m, rec)
}

type subState struct {
	chans map[string]bool
	pats  map[string]bool
}

type world struct {
	s    *sut.Server
	port int
	subs []*sut.Conn
	pub  *sut.Conn
	obs  *sut.Conn
	tab  []subState
	seq  int
}

func newWorld(t interface{ Fatalf(string, ...any) }) *world {
	w := &world{port: sut.FreePort()}
	var err error
	w.s, err = sut.New(sut.Opts{Port: w.port})
	if err != nil {
		t.Fatalf("HARNESS-ERROR: %v", err)
	}
	dial := func() *sut.Conn {
		c, err := sut.Dial(w.port)
		if err != nil {
			t.Fatalf("HARNESS-ERROR: dial: %v", err)
		}
		c.Timeout = 5 * time.Second
		c.Do("PING")
		return c
	}
	for i := 0; i < 3; i++ {
		c := dial()
		w.subs = append(w.subs, c)
		w.tab = append(w.tab, subState{chans: map[string]bool{}, pats: map[string]bool{}})
		// private sentinel channel
		_ = c.Send(sut.Encode("SUBSCRIBE", sentinelChan(i)))
		if _, _, err := c.ReadValue(3 * time.Second); err != nil {
			t.Fatalf("HARNESS-ERROR: sentinel subscribe: %v", err)
		}
	}
	w.pub, w.obs = dial(), dial()
	return w
}

func sentinelChan(i int) string { return fmt.Sprintf("zz-sentinel-%d", i) }

func (w *world) close() {
	for _, c := range append(append([]*sut.Conn{}, w.subs...), w.pub, w.obs) {
		c.Close()
	}
	w.s.Close()
	w.s.RemoveDir()
}

type step struct {
	Kind  string   `json:"kind"`
	Conn  int      `json:"conn,omitempty"`
	Args  []string `json:"args,omitempty"`
	Count int      `json:"count,omitempty"`
}

var chanPool = []string{"a", "b", "ab", "c"}
var patPool = []string{"a*", "?b", "[ab]*", "*b", "c?", "a", "ab"} // incl. patterns without a wildcard whose text equals a channel name

// matches: how many of the connection's subscriptions match channel ch.
func (st subState) matches(ch string) int {
	n := 0
	if st.chans[ch] {
		n++
	}
	for p := range st.pats {
		if acl.Match(p, ch) {
			n++
		}
	}
	return n
}

func (st subState) count() int { return len(st.chans) + len(st.pats) + 1 } // + the sentinel channel

// frame decodes a pushed frame into (kind, payload, count).
func frame(v resp.Value) (kind string, fields []string) {
	l, ok := v.List()
	if !ok {
		return "", nil
	}
	for _, e := range l {
		t, _ := e.Text()
		fields = append(fields, t)
	}
	if len(fields) > 0 {
		kind = strings.ToLower(fields[0])
	}
	return kind, fields
}

// drain reads pushed frames of subscriber i until its sentinel arrives; returns the payloads of the
// message frames received before it.
func (w *world) drain(i int, tag string) ([]string, string) {
	var payloads []string
	deadline := time.Now().Add(5 * time.Second)
	for {
		v, raw, err := w.subs[i].ReadValue(time.Until(deadline))
		if err != nil {
			if sut.IsTimeout(err) {
				return payloads, fmt.Sprintf("subscriber %d: the sentinel %q did not arrive within 5 s", i, tag)
			}
			return payloads, fmt.Sprintf("subscriber %d: malformed frame %q: %v", i, trunc(string(raw), 120), err)
		}
		kind, f := frame(v)
		switch kind {
		case "message", "pmessage":
			p := f[len(f)-1]
			if p == tag {
				// settle: anything that still trickles in belongs to this round as well
				time.Sleep(3 * time.Millisecond)
				for {
					v2, _, err2 := w.subs[i].ReadValue(2 * time.Millisecond)
					if err2 != nil {
						break
					}
					if k2, f2 := frame(v2); (k2 == "message" || k2 == "pmessage") && !strings.HasPrefix(f2[len(f2)-1], "s") {
						payloads = append(payloads, f2[len(f2)-1])
					}
				}
				return payloads, ""
			}
			if !strings.HasPrefix(p, "s") { // an older sentinel copy delivered through a matching pattern
				payloads = append(payloads, p)
			}
		default:
			return payloads, fmt.Sprintf("subscriber %d: unexpected frame %s while waiting for messages", i, v.Canon())
		}
	}
}

func runCase(t *rapid.T, replay []step) {
	w := newWorld(t)
	defer w.close()
	var trace []step
	fail := func(format string, a ...any) {
		msg := fmt.Sprintf(format, a...)
		b, _ := json.MarshalIndent(map[string]any{"property": "C18", "steps": trace, "failure": msg}, "", " ")
		p := engine.WriteRaw("C18", "random", b)
		t.Fatalf("violation (replay %s): %s", p, msg)
	}
	n := len(replay)
	if replay == nil {
		n = rapid.IntRange(3, 30).Draw(t, "n")
	}
	unsubscribed, bigBurst, pubAfterUnsub := false, false, false
	for si := 0; si < n; si++ {
		var st step
		if replay != nil {
			st = replay[si]
		} else {
			c := rapid.IntRange(0, 2).Draw(t, "conn")
			pick := func(pool []string, lo, hi int, l string) []string {
				k := rapid.IntRange(lo, hi).Draw(t, l+"_n")
				out := []string{}
				for i := 0; i < k; i++ {
					out = append(out, rapid.SampledFrom(pool).Draw(t, l))
				}
				return out
			}
			switch rapid.IntRange(0, 15).Draw(t, "kind") {
			case 0, 1, 2:
				st = step{Kind: "subscribe", Conn: c, Args: pick(chanPool, 1, 3, "ch")}
			case 3, 4:
				st = step{Kind: "psubscribe", Conn: c, Args: pick(patPool, 1, 2, "pat")}
			case 5, 6:
				st = step{Kind: "unsubscribe", Conn: c, Args: pick(chanPool, 0, 2, "ch")}
			case 7:
				st = step{Kind: "punsubscribe", Conn: c, Args: pick(patPool, 0, 2, "pat")}
			case 8, 9, 10, 11:
				st = step{Kind: "publish", Args: []string{rapid.SampledFrom(append(append([]string{}, chanPool...), "zzz")).Draw(t, "pch")}, Count: 1}
			case 12, 13:
				if rapid.IntRange(0, 59).Draw(t, "flood") == 0 {
					// a flood to subscribers that do not read for a while: far more than the server can queue
					st = step{Kind: "flood", Args: []string{rapid.SampledFrom(chanPool).Draw(t, "pch")}, Count: 16000}
					break
				}
				st = step{Kind: "publish", Args: []string{rapid.SampledFrom(chanPool).Draw(t, "pch")}, Count: rapid.SampledFrom([]int{2, 5, 20, 60, 300}).Draw(t, "burst")}
			default:
				st = step{Kind: "introspect"}
			}
		}
		trace = append(trace, st)
		rec.Class("step:" + st.Kind)
		switch st.Kind {
		case "subscribe", "psubscribe":
			c := w.subs[st.Conn]
			isPat := st.Kind == "psubscribe"
			_ = c.Send(sut.Encode(append([]string{strings.ToUpper(st.Kind)}, st.Args...)...))
			seen := map[string]bool{}
			for idx, name := range st.Args {
				v, raw, err := c.ReadValue(3 * time.Second)
				if err != nil {
					if seen[name] && sut.IsTimeout(err) {
						continue // a channel repeated in one command: one confirmation is enough
					}
					fail("%s %q on subscriber %d: confirmation %d of %d missing or malformed: %v (%q)", st.Kind, st.Args, st.Conn, idx+1, len(st.Args), err, trunc(string(raw), 100))
				}
				kind, f := frame(v)
				if kind != st.Kind || len(f) != 3 || f[1] != name {
					fail("%s %q on subscriber %d: confirmation %d is %s, expected [%s %s <count>]", st.Kind, st.Args, st.Conn, idx+1, v.Canon(), st.Kind, name)
				}
				if isPat {
					w.tab[st.Conn].pats[name] = true
				} else {
					w.tab[st.Conn].chans[name] = true
				}
				seen[name] = true
				want := w.tab[st.Conn].count()
				if got, _ := strconv.Atoi(f[2]); got != want {
					if got == idx+1 && findings.IsOpen("F-C18-confirmation-count") {
						rec.Excluded("F-C18-confirmation-count")
					} else {
						fail("%s %q on subscriber %d: confirmation for %q carries count %d, the connection now has %d subscriptions", st.Kind, st.Args, st.Conn, name, got, want)
					}
				}
			}
		case "unsubscribe", "punsubscribe":
			c := w.subs[st.Conn]
			isPat := st.Kind == "punsubscribe"
			// expected set of subscriptions left
			left := map[string]bool{}
			cur := w.tab[st.Conn].chans
			if isPat {
				cur = w.tab[st.Conn].pats
			}
			if len(st.Args) == 0 {
				for k := range cur {
					left[k] = true
				}
			} else {
				for _, a := range st.Args {
					if cur[a] {
						left[a] = true
					}
				}
			}
			_ = c.Send(sut.Encode(append([]string{strings.ToUpper(st.Kind)}, st.Args...)...))
			// confirmations: one array of arrays, or one push per channel
			got := map[string]int{}
			v, raw, err := c.ReadValue(3 * time.Second)
			if err != nil {
				fail("%s %q on subscriber %d: no well-formed reply: %v (%q)", st.Kind, st.Args, st.Conn, err, trunc(string(raw), 100))
			}
			collect := func(v resp.Value) bool {
				kind, f := frame(v)
				if kind == st.Kind && len(f) == 3 {
					got[f[1]]++
					return true
				}
				return false
			}
			if !collect(v) {
				l, _ := v.List()
				for _, e := range l {
					if !collect(e) {
						fail("%s %q on subscriber %d: unexpected reply %s", st.Kind, st.Args, st.Conn, v.Canon())
					}
				}
			} else {
				for i := 1; i < len(left); i++ {
					v2, _, err2 := c.ReadValue(2 * time.Second)
					if err2 != nil || !collect(v2) {
						break
					}
				}
			}
			if len(st.Args) == 0 && !isPat {
				delete(got, sentinelChan(st.Conn))
				// "unsubscribe from everything" also drops the private sentinel channel: join it again
				_ = c.Send(sut.Encode("SUBSCRIBE", sentinelChan(st.Conn)))
				if _, _, err := c.ReadValue(3 * time.Second); err != nil {
					t.Fatalf("HARNESS-ERROR: sentinel re-subscribe: %v", err)
				}
			}
			for name := range left {
				if got[name] != 1 {
					fail("%s %q on subscriber %d: channel %q was confirmed %d times, expected once (confirmed: %v)", st.Kind, st.Args, st.Conn, name, got[name], got)
				}
				delete(cur, name)
			}
			for name := range got {
				if !left[name] {
					fail("%s %q on subscriber %d confirmed %q, which the connection was not subscribed to as a %s", st.Kind, st.Args, st.Conn, name, map[bool]string{true: "pattern", false: "channel"}[isPat])
				}
			}
			unsubscribed = true
		case "publish":
			ch := st.Args[0]
			if unsubscribed {
				pubAfterUnsub = true
			}
			if st.Count >= 50 {
				bigBurst = true
			}
			var sent []string
			var buf []byte
			for i := 0; i < st.Count; i++ {
				w.seq++
				p := fmt.Sprintf("m%06d", w.seq)
				sent = append(sent, p)
				buf = append(buf, sut.Encode("PUBLISH", ch, p)...)
			}
			_ = w.pub.Send(buf)
			for i := 0; i < st.Count; i++ {
				if _, _, err := w.pub.ReadValue(5 * time.Second); err != nil {
					fail("PUBLISH %d of %d to %q was not answered: %v", i+1, st.Count, ch, err)
				}
			}
			// sentinels
			for i := range w.subs {
				w.seq++
				tag := fmt.Sprintf("s%06d", w.seq)
				if r := w.pub.Do("PUBLISH", sentinelChan(i), tag); r.Val.IsErr() {
					fail("PUBLISH to the sentinel channel failed: %s", r.String())
				}
				got, problem := w.drain(i, tag)
				if problem != "" {
					fail("%s (after publishing %d message(s) to %q)", problem, st.Count, ch)
				}
				k := w.tab[i].matches(ch)
				if problem := judge(sent, got, k); problem != "" {
					fail("subscriber %d (channels %v, patterns %v, %d matching subscription(s) for %q): %s; published %s, received %s", i, keysOf(w.tab[i].chans), keysOf(w.tab[i].pats), k, ch, problem, brief(sent), brief(got))
				}
			}
		case "flood":
			ch := st.Args[0]
			bigBurst = true
			pad := strings.Repeat("x", 1000)
			sent := make([]string, 0, st.Count)
			var buf []byte
			for i := 0; i < st.Count; i++ {
				w.seq++
				p := fmt.Sprintf("m%06d%s", w.seq, pad)
				sent = append(sent, p)
				buf = append(buf, sut.Encode("PUBLISH", ch, p)...)
			}
			// the publisher writes and reads on goroutines of its own: while the subscribers do not read, the
			// server may stop taking publishes, and nothing here may wait for it
			sendErr := make(chan error, 1)
			ackErr := make(chan string, 1)
			go func() { sendErr <- w.pub.Send(buf) }()
			go func() {
				for i := 0; i < st.Count; i++ {
					if _, _, err := w.pub.ReadValue(60 * time.Second); err != nil {
						ackErr <- fmt.Sprintf("PUBLISH %d of %d to %q was not answered: %v", i+1, st.Count, ch, err)
						return
					}
				}
				ackErr <- ""
			}()
			time.Sleep(150 * time.Millisecond) // nobody reads: socket buffers and the server's queues fill up
			// From here on every subscriber is read until the very end (a reader that stopped early would stall the
			// server's delivery and, through it, the publisher): the readers run until they are told to stop.
			type res struct {
				got     []string
				problem string
			}
			stop := make(chan struct{})
			results := make([]chan res, len(w.subs))
			counts := make([]atomic.Int64, len(w.subs))
			for i := range w.subs {
				i := i
				results[i] = make(chan res, 1)
				go func() {
					var got []string
					for {
						v, raw, err := w.subs[i].ReadValue(200 * time.Millisecond)
						if err != nil {
							if sut.IsTimeout(err) {
								select {
								case <-stop:
									results[i] <- res{got, ""}
									return
								default:
									continue
								}
							}
							results[i] <- res{got, fmt.Sprintf("subscriber %d: malformed frame %q: %v", i, trunc(string(raw), 120), err)}
							return
						}
						kind, f := frame(v)
						if kind != "message" && kind != "pmessage" {
							results[i] <- res{got, fmt.Sprintf("subscriber %d: unexpected frame %s during a flood", i, trunc(v.Canon(), 120))}
							return
						}
						if p := f[len(f)-1]; !strings.HasPrefix(p, "s") {
							got = append(got, p)
							counts[i].Add(1)
						}
					}
				}()
			}
			ackMsg := <-ackErr
			<-sendErr
			// every publish has been answered: wait until the deliveries have arrived, or nothing has moved for a while
			total := func() (n int64) {
				for i := range counts {
					n += counts[i].Load()
				}
				return
			}
			var want int64
			for i := range w.subs {
				want += int64(w.tab[i].matches(ch) * st.Count)
			}
			last, lastMove := total(), time.Now()
			for total() < want && time.Since(lastMove) < sut.Patience(5*time.Second) {
				time.Sleep(20 * time.Millisecond)
				if n := total(); n != last {
					last, lastMove = n, time.Now()
				}
			}
			time.Sleep(50 * time.Millisecond) // anything beyond the expected number would follow closely
			close(stop)
			var all []res
			for i := range w.subs {
				all = append(all, <-results[i])
			}
			if ackMsg != "" {
				// a publish that was not answered in time: a verdict only if the server has stopped answering
				// altogether; a flood that is merely slow (a dozen floods at once on a loaded machine) is inconclusive
				probe, err := sut.Dial(w.port)
				stuck := err != nil
				if err == nil {
					probe.Timeout = 30 * time.Second
					if txt, _ := probe.Do("PING").Val.Text(); txt != "PONG" {
						stuck = true
					}
					probe.Close()
				}
				if stuck {
					fail("%s, and a fresh connection's PING is not answered either", ackMsg)
				}
				fmt.Println("HARNESS-ERROR: " + ackMsg + " although the server answers PING (inconclusive)")
				return
			}
			for i, r := range all {
				if r.problem != "" {
					fail("%s (flood of %d messages to %q)", r.problem, st.Count, ch)
				}
				if problem := judge(sent, r.got, w.tab[i].matches(ch)); problem != "" {
					fail("subscriber %d (%d matching subscription(s) for %q), flood of %d messages of 1 KB published while nobody was reading for 150 ms: %s", i, w.tab[i].matches(ch), ch, st.Count, trunc(problem, 200))
				}
			}
			rec.Class("flood to stalled subscribers")
		case "introspect":
			// NUMSUB
			r := w.obs.Do(append([]string{"PUBSUB", "NUMSUB"}, chanPool...)...)
			var flat []string
			flatten(r.Val, &flat)
			for i := 0; i+1 < len(flat); i += 2 {
				want := 0
				for _, st := range w.tab {
					if st.chans[flat[i]] {
						want++
					}
				}
				if want == 0 {
					// nobody is subscribed to the channel; if the same text is subscribed as a pattern, the number of
					// its subscribers is an accepted answer too (an existing test expects NUMSUB to count a pattern
					// entry when it is asked for by its text)
					asPattern := 0
					for _, st := range w.tab {
						if st.pats[flat[i]] {
							asPattern++
						}
					}
					if asPattern > 0 && flat[i+1] == strconv.Itoa(asPattern) {
						continue
					}
				}
				if flat[i+1] != strconv.Itoa(want) {
					fail("PUBSUB NUMSUB reports %s subscribers for channel %q, the subscription table has %d", flat[i+1], flat[i], want)
				}
			}
			// NUMPAT
			pats := map[string]bool{}
			chans := map[string]bool{}
			for _, st := range w.tab {
				for p := range st.pats {
					pats[p] = true
				}
				for c := range st.chans {
					chans[c] = true
				}
			}
			r = w.obs.Do("PUBSUB", "NUMPAT")
			if n, _ := r.Val.AsInt(); int(n) != len(pats) {
				fail("PUBSUB NUMPAT reports %s, the subscription table has %d distinct patterns (%v)", r.String(), len(pats), keysOf(pats))
			}
			// CHANNELS: active channels (the sentinel channels are ours)
			r = w.obs.Do("PUBSUB", "CHANNELS")
			got, _ := r.Val.Strings()
			gotSet := map[string]bool{}
			for _, g := range got {
				// (the server also lists its pattern entries here, which is not asserted either way; a name that is
				// both a subscribed pattern and a subscribed channel has to be listed)
				if !strings.HasPrefix(g, "zz-sentinel-") && (!pats[g] || chans[g]) {
					gotSet[g] = true
				}
			}
			if strings.Join(keysOf(gotSet), ",") != strings.Join(keysOf(chans), ",") {
				fail("PUBSUB CHANNELS reports %v, the subscription table has the channels %v (patterns %v)", keysOf(gotSet), keysOf(chans), keysOf(pats))
			}
		}
	}
	diff := false
	for i := 1; i < len(w.tab); i++ {
		if strings.Join(keysOf(w.tab[i].chans), ",")+"|"+strings.Join(keysOf(w.tab[i].pats), ",") != strings.Join(keysOf(w.tab[0].chans), ",")+"|"+strings.Join(keysOf(w.tab[0].pats), ",") {
			diff = true
		}
	}
	canon, _ := json.Marshal(trace)
	sample := []string{}
	for _, s := range trace {
		sample = append(sample, fmt.Sprintf("%s conn%d %v x%d", s.Kind, s.Conn, s.Args, s.Count))
	}
	rec.Case(string(canon), (diff && pubAfterUnsub) || bigBurst, sample)
}

// judge compares what one subscriber received with what was published to one channel, given the
// number k of its subscriptions that match the channel.
func judge(sent, got []string, k int) string {
	if k == 0 {
		if len(got) > 0 {
			return fmt.Sprintf("received %d message(s) although no subscription matches", len(got))
		}
		return ""
	}
	count := map[string]int{}
	for _, g := range got {
		count[g]++
	}
	isSent := map[string]bool{}
	for _, s := range sent {
		isSent[s] = true
		if count[s] == 0 {
			return fmt.Sprintf("message %s was not delivered", s)
		}
		if count[s] > k {
			return fmt.Sprintf("message %s was delivered %d times with %d matching subscription(s)", s, count[s], k)
		}
		if k == 1 && count[s] != 1 {
			return fmt.Sprintf("message %s was delivered %d times", s, count[s])
		}
	}
	for _, g := range got {
		if !isSent[g] {
			return fmt.Sprintf("received %s, which was not published in this round", g)
		}
	}
	// order: the first occurrences must be in publish order (each copy stream is ordered by itself, so
	// with k streams the i-th message's first copy cannot come after the (i+1)-th message's last copy);
	// for k == 1 this is exactly "received sequence = published sequence"
	if k == 1 {
		for i := range sent {
			if got[i] != sent[i] {
				return fmt.Sprintf("messages arrived out of order: position %d holds %s, published %s", i, got[i], sent[i])
			}
		}
		return ""
	}
	first := map[string]int{}
	last := map[string]int{}
	for i, g := range got {
		if _, ok := first[g]; !ok {
			first[g] = i
		}
		last[g] = i
	}
	for i := 0; i+1 < len(sent); i++ {
		if count[sent[i]] == k && count[sent[i+1]] == k && first[sent[i]] > last[sent[i+1]] {
			return fmt.Sprintf("messages arrived out of order: every copy of %s came after every copy of %s", sent[i], sent[i+1])
		}
	}
	return ""
}

func keysOf(m map[string]bool) []string {
	out := make([]string, 0, len(m))
	for k := range m {
		out = append(out, k)
	}
	sort.Strings(out)
	return out
}

func brief(s []string) string {
	if len(s) > 12 {
		return fmt.Sprintf("%v … (%d)", s[:12], len(s))
	}
	return fmt.Sprint(s)
}

func flatten(v resp.Value, out *[]string) {
	if l, ok := v.List(); ok {
		for _, e := range l {
			flatten(e, out)
		}
		return
	}
	if t, ok := v.Text(); ok {
		*out = append(*out, t)
	}
}

func trunc(s string, n int) string {
	if len(s) > n {
		return s[:n] + "…"
	}
	return s
}

func TestRandom(t *testing.T) {
	if common.ReplayPath() != "" {
		t.Skip()
	}
	defer common.Verdict(t, rec, "random")
	rapid.Check(t, func(t *rapid.T) { runCase(t, nil) })
}

func TestReplay(t *testing.T) {
	p := common.ReplayPath()
	if p == "" {
		t.Skip()
	}
	var rf struct {
		Steps []step `json:"steps"`
	}
	if err := common.LoadJSON(p, &rf); err != nil {
		t.Fatalf("HARNESS-ERROR: %v", err)
	}
	defer func() {
		if t.Failed() {
			fmt.Printf("VIOLATION property=C18 replay=%s\n", p)
		}
	}()
	rapid.Check(t, func(t *rapid.T) { runCase(t, rf.Steps) })
}
