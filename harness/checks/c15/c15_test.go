package c15

import (
	"testing"

	"verifharness/common"
	"verifharness/evidence"
	"verifharness/gen"
)

var rec *evidence.Recorder
var fam *common.Family

func TestMain(m *testing.M) {
	rec = evidence.New("C15", "exploration",
		"(1) exhaustive enumeration of every sequence of length ≤ 2 (quick) / ≤ 3 (thorough) over a fixed alphabet of concrete list commands; (2) rapid state machine (1–30 steps) over the 13 list commands (LPUSH/RPUSH/LPUSHX/RPUSHX with 1–3 elements, LPOP/RPOP with counts 0, len, len+1, LLEN, LRANGE/LINDEX/LSET/LTRIM with indices from {-len-1,-len,-1,0,1,len-1,len,len+1,extremes}, LREM with count 0/±n on lists with duplicates, LMOVE in all four directions incl. source = destination), wrong arities, keys of other types, DEL, keys {a,b,c}; elements are drawn mostly from the list's current elements. "+
			"After every command the reply is compared by meaning with a sequential reference model and the state of every key (TYPE, full read, PEXPIRETIME) is compared. A case is one command sequence; non-trivial = ≥ 2 commands address the same key, or some command was answered with an error; distinct = FNV-64 of the command sequence.",
		"embedded API (ExecuteCommand) is the observation point; wire framing is C12's business",
		"details the property and SugarDB's docs leave open are not asserted (see /verif/SPEC.md)")
	fam = &common.Family{Rec: rec, Keys: gen.Keys, Gen: gen.ListCmd, Alphabet: enumAlphabet, MaxSteps: 30}
	common.Main(m, rec)
}

func enumAlphabet(thorough bool) [][]string {
	al := [][]string{
		{"RPUSH", "a", "x", "y", "x"}, {"RPUSH", "a", "z"}, {"LPUSH", "a", "h"}, {"LPUSHX", "a", "p"}, {"RPUSHX", "b", "q"}, {"LPOP", "a"}, {"RPOP", "a"}, {"LPOP", "a", "2"}, {"RPOP", "a", "5"},
		{"LLEN", "a"}, {"LRANGE", "a", "0", "-1"}, {"LRANGE", "a", "1", "3"}, {"LRANGE", "a", "-2", "1"}, {"LRANGE", "a", "0", "2"}, {"LINDEX", "a", "0"}, {"LINDEX", "a", "-1"}, {"LINDEX", "a", "3"},
		{"LSET", "a", "0", "s"}, {"LSET", "a", "3", "s"}, {"LTRIM", "a", "1", "-1"}, {"LTRIM", "a", "0", "0"}, {"LREM", "a", "0", "x"}, {"LREM", "a", "1", "x"}, {"LREM", "a", "-1", "x"},
		{"LMOVE", "a", "b", "LEFT", "RIGHT"}, {"LMOVE", "a", "a", "RIGHT", "LEFT"}, {"LMOVE", "b", "a", "RIGHT", "LEFT"}, {"SET", "a", "str"}, {"DEL", "a"}, {"RPUSH", "b", "w"}, {"LRANGE", "b", "0", "-1"},
	}
	if thorough {
		al = append(al, [][]string{
			{"RPUSH", "a", "x", "x", "x", "y"}, {"LPUSH", "a", "1", "2"}, {"LRANGE", "a", "2", "2"}, {"LRANGE", "a", "-100", "100"}, {"LRANGE", "a", "3", "1"}, {"LTRIM", "a", "2", "1"}, {"LTRIM", "a", "-2", "-1"},
			{"LPOP", "a", "0"}, {"RPOP", "b"}, {"LINDEX", "a", "-4"}, {"LSET", "a", "-1", "t"}, {"LREM", "a", "-2", "x"}, {"LREM", "a", "2", "x"}, {"LMOVE", "a", "b", "RIGHT", "RIGHT"}, {"LMOVE", "a", "b", "LEFT", "LEFT"}, {"LLEN", "b"}, {"SADD", "b", "m"},
		}...)
	}
	return al
}

func TestCorpus(t *testing.T) { fam.Corpus(t) }
func TestRandom(t *testing.T) { fam.Random(t) }
func TestEnum(t *testing.T)   { fam.Enum(t) }
func TestReplay(t *testing.T) { fam.Replay(t) }
