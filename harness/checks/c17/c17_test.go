package c17

import (
	"testing"

	"verifharness/common"
	"verifharness/evidence"
	"verifharness/gen"
)

var rec *evidence.Recorder
var fam *common.Family

func TestMain(m *testing.M) {
	rec = evidence.New("C17", "exploration",
		"(1) exhaustive enumeration of every sequence of length ≤ 2 (quick) / ≤ 3 (thorough) over a fixed alphabet of concrete sorted-set commands; (2) rapid state machine (1–30 steps) over the 25 sorted-set commands (ZADD with NX/XX/GT/LT/CH/INCR and illegal combinations, equal / fractional / infinite scores, ZINCRBY, ZSCORE, ZMSCORE, ZCARD, ZCOUNT, ZLEXCOUNT, ZRANK/ZREVRANK with ties and WITHSCORE, ZREM, ZPOPMIN/ZPOPMAX/ZMPOP with counts, ZREMRANGEBYSCORE/LEX/RANK with boundary indices, ZRANGE/ZRANGESTORE by score and lex with REV, LIMIT and WITHSCORES, ZRANDMEMBER, ZUNION/ZINTER/ZDIFF and STORE forms with 1–3 operands, WEIGHTS and AGGREGATE), wrong arities, keys of other types, DEL, keys {a,b,c}. "+
			"After every command the reply is compared by meaning with a sequential reference model and the state of every key (TYPE, full read, PEXPIRETIME) is compared. A case is one command sequence; non-trivial = ≥ 2 commands address the same key, or some command was answered with an error; distinct = FNV-64 of the command sequence.",
		"embedded API (ExecuteCommand) is the observation point; wire framing is C12's business",
		"details the property and SugarDB's docs leave open are not asserted (see /verif/SPEC.md)")
	fam = &common.Family{Rec: rec, Keys: gen.Keys, Gen: gen.ZSetCmd, Alphabet: enumAlphabet, MaxSteps: 30}
	common.Main(m, rec)
}

func enumAlphabet(thorough bool) [][]string {
	al := [][]string{
		{"ZADD", "a", "1", "x", "2", "y"}, {"ZADD", "a", "2", "z"}, {"ZADD", "b", "5", "y", "1", "w"}, {"ZADD", "a", "NX", "9", "x"}, {"ZADD", "a", "XX", "CH", "3", "x"}, {"ZADD", "a", "GT", "0", "y"}, {"ZADD", "a", "LT", "CH", "0", "y"},
		{"ZADD", "a", "INCR", "1.5", "x"}, {"ZINCRBY", "a", "2", "x"}, {"ZSCORE", "a", "x"}, {"ZMSCORE", "a", "x", "q"}, {"ZCARD", "a"}, {"ZCOUNT", "a", "1", "2"}, {"ZRANK", "a", "y"}, {"ZREVRANK", "a", "y"}, {"ZREM", "a", "x", "q"},
		{"ZPOPMIN", "a"}, {"ZPOPMAX", "a", "2"}, {"ZRANGE", "a", "-inf", "+inf", "WITHSCORES"}, {"ZRANGE", "a", "1", "2", "BYSCORE", "REV"}, {"ZRANGE", "a", "0", "5", "LIMIT", "1", "1"}, {"ZREMRANGEBYSCORE", "a", "2", "3"}, {"ZREMRANGEBYRANK", "a", "0", "0"},
		{"ZUNION", "a", "b", "WITHSCORES"}, {"ZINTER", "a", "b", "WEIGHTS", "2", "3", "WITHSCORES"}, {"ZDIFF", "a", "b"}, {"ZUNIONSTORE", "c", "a", "b"}, {"ZINTERSTORE", "c", "a", "b", "AGGREGATE", "MAX"}, {"ZRANGESTORE", "c", "a", "1", "2"},
		{"SET", "a", "str"}, {"DEL", "a"}, {"ZRANGE", "c", "-inf", "+inf", "WITHSCORES"},
	}
	if thorough {
		al = append(al, [][]string{
			{"ZADD", "a", "1", "p", "1", "o", "1", "q"}, {"ZRANGE", "a", "o", "p", "BYLEX"}, {"ZLEXCOUNT", "a", "o", "q"}, {"ZREMRANGEBYLEX", "a", "o", "p"}, {"ZRANK", "a", "q", "WITHSCORE"}, {"ZADD", "a", "NX", "XX", "1", "x"}, {"ZADD", "a", "inf", "i"},
			{"ZADD", "a", "-inf", "n"}, {"ZMPOP", "a", "b", "MIN"}, {"ZMPOP", "b", "a", "MAX", "COUNT", "2"}, {"ZRANDMEMBER", "a", "-3", "WITHSCORES"}, {"ZRANDMEMBER", "a", "2"}, {"ZDIFFSTORE", "a", "a", "b"}, {"ZUNION", "a", "nokey"},
			{"ZINTER", "a", "a"}, {"ZUNIONSTORE", "a", "a", "b", "WEIGHTS", "1", "-1", "AGGREGATE", "MIN"}, {"ZCOUNT", "a", "-inf", "+inf"}, {"ZPOPMIN", "b", "5"}, {"RPUSH", "b", "e"}, {"ZREMRANGEBYRANK", "a", "-2", "-1"},
		}...)
	}
	return al
}

func TestCorpus(t *testing.T) { fam.Corpus(t) }
func TestRandom(t *testing.T) { fam.Random(t) }
func TestEnum(t *testing.T)   { fam.Enum(t) }
func TestReplay(t *testing.T) { fam.Replay(t) }
