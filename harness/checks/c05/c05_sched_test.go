package c05

import (
	"encoding/json"
	"fmt"
	"sort"
	"strings"
	"testing"

	"pgregory.net/rapid"

	"verifharness/common"
	"verifharness/engine"
	"verifharness/evidence"
	"verifharness/gen"
	"verifharness/model"
	"verifharness/sched"
	"verifharness/sut"
)

// ---- schedule-controlled leg ----
//
// Two or three commands are issued by concurrent embedded callers on a generated dataset. The controller of
// package sched owns the interleaving of their keyspace steps (the verifhook.Yield points at the entry of
// keysExist / getValues / setValues / setExpiry / deleteKey / flush / swap / state copy, and before the command
// lock) and enumerates the schedules depth-first. Oracle: the replies and the final dataset of every schedule
// equal those of one of the sequential orders of the same commands, computed by running each order on a fresh
// server of the same build; no deadlock, no panic.

var schedKeys = []string{"a", "b", "c"}
var schedDBs = []int{0, 1}

type schedCase struct {
	Setup    [][]string `json:"setup"`
	Tasks    [][]string `json:"tasks"`
	Schedule []int      `json:"schedule,omitempty"` // replay: positions within the enabled set
}

// nondeterministic: commands whose sequential outcome is not a function of the dataset
func nondeterministic(cmd []string) bool {
	switch strings.ToUpper(cmd[0]) {
	case "SPOP", "SRANDMEMBER", "HRANDFIELD", "ZRANDMEMBER", "RANDOMKEY", "OBJECT", "LASTSAVE", "SAVE", "BGSAVE":
		return true
	}
	return false
}

func genSchedCmd(t *rapid.T, m *model.Model) []string {
	for {
		var c []string
		switch rapid.IntRange(0, 12).Draw(t, "src") {
		case 0, 1, 2, 3, 4:
			c = gen.AnyFamilyCmd(t, m, schedKeys)
		case 5, 6:
			c = gen.WriterCmd(t, m, schedKeys)
		case 7:
			a, b := gen.Key(t, schedKeys, "k1"), gen.Key(t, schedKeys, "k2")
			c = rapid.SampledFrom([][]string{
				{"MSET", a, "1", b, "2"}, {"MGET", a, b}, {"RENAME", a, b}, {"DEL", a, b}, {"LMOVE", a, b, "LEFT", "RIGHT"}, {"SMOVE", a, b, "m1"},
				{"SUNIONSTORE", a, a, b}, {"SINTERSTORE", a, b, "c"}, {"SDIFFSTORE", b, a, "c"}, {"ZUNIONSTORE", a, "2", a, b}, {"ZINTERSTORE", b, "2", a, b}, {"ZDIFFSTORE", a, "2", b, "c"},
				{"ZRANGESTORE", a, b, "0", "-1"}, {"GETDEL", a}, {"GETEX", a, "PERSIST"}, {"COPY", a, b}, {"EXISTS", a, b}, {"TOUCH", a, b},
			}).Draw(t, "multi")
		case 8, 12:
			c = rapid.SampledFrom([][]string{{"FLUSHDB"}, {"FLUSHALL"}, {"SWAPDB", "0", "1"}, {"DBSIZE"}, {"KEYS", "*"}}).Draw(t, "global")
		case 9:
			k := gen.Key(t, schedKeys, "ek")
			c = rapid.SampledFrom([][]string{{"PEXPIRE", k, "100000"}, {"PERSIST", k}, {"PTTL", k}, {"EXPIRE", k, "100", "NX"}, {"TYPE", k}, {"PEXPIRETIME", k}}).Draw(t, "exp")
		default:
			k := gen.Key(t, schedKeys, "ck")
			c = rapid.SampledFrom([][]string{{"INCR", k}, {"INCRBY", k, "7"}, {"APPEND", k, "xy"}, {"LPUSH", k, "e"}, {"RPOP", k}, {"SADD", k, "m9"}, {"HINCRBY", k, "f", "3"}, {"ZINCRBY", k, "2", "m1"}, {"HSET", k, "f", "v"}, {"SETRANGE", k, "2", "zz"}}).Draw(t, "rmw")
		}
		if !nondeterministic(c) {
			return c
		}
	}
}

// unordered: commands whose array reply has no defined order (map iteration): compared as multisets
var unordered = map[string]bool{"HKEYS": true, "HVALS": true, "HGETALL": true, "SMEMBERS": true, "SUNION": true, "SINTER": true, "SDIFF": true, "KEYS": true}

func replyText(cmd []string, rep sut.Reply) string {
	if unordered[strings.ToUpper(cmd[0])] && rep.Panic == "" && len(rep.Val.Elems) > 1 {
		var el []string
		for _, e := range rep.Val.Elems {
			el = append(el, e.Canon())
		}
		sort.Strings(el)
		return "unordered[" + strings.Join(el, " ") + "]"
	}
	return rep.String()
}

type outcome struct {
	Replies []string
	Digest  string
}

func (o outcome) key() string { return strings.Join(o.Replies, " || ") + " ## " + o.Digest }

func newSchedServer(setup [][]string) (*sut.Server, error) {
	s, err := sut.New(sut.Opts{})
	if err != nil {
		return nil, err
	}
	for _, c := range setup {
		s.Do(c...)
	}
	s.WaitAsync()
	return s, nil
}

func closeSched(s *sut.Server) { s.WaitAsync(); s.Close(); s.RemoveDir() }

func digestOf(s *sut.Server) string {
	s.WaitAsync()
	d := s.TakeDigest(schedDBs, schedKeys)
	_ = s.Select(0)
	return d.Canon()
}

func permutations(n int) [][]int {
	if n == 2 {
		return [][]int{{0, 1}, {1, 0}}
	}
	return [][]int{{0, 1, 2}, {0, 2, 1}, {1, 0, 2}, {1, 2, 0}, {2, 0, 1}, {2, 1, 0}}
}

// sequentialOutcomes runs every order of the tasks on a fresh server.
func sequentialOutcomes(c schedCase) (map[string]outcome, error) {
	out := map[string]outcome{}
	for _, perm := range permutations(len(c.Tasks)) {
		s, err := newSchedServer(c.Setup)
		if err != nil {
			return nil, err
		}
		o := outcome{Replies: make([]string, len(c.Tasks))}
		for _, i := range perm {
			o.Replies[i] = replyText(c.Tasks[i], s.Do(c.Tasks[i]...))
		}
		o.Digest = digestOf(s)
		closeSched(s)
		out[o.key()] = o
	}
	return out, nil
}

func runSchedule(c schedCase, choose func(step int, enabled []int) int) (outcome, sched.Result, error) {
	s, err := newSchedServer(c.Setup)
	if err != nil {
		return outcome{}, sched.Result{}, err
	}
	defer closeSched(s)
	o := outcome{Replies: make([]string, len(c.Tasks))}
	fns := make([]func(), len(c.Tasks))
	for i := range c.Tasks {
		i := i
		fns[i] = func() { o.Replies[i] = replyText(c.Tasks[i], s.DoInline(c.Tasks[i]...)) }
	}
	ctl := sched.Controller{}
	res := ctl.Run(fns, choose)
	if res.Deadlock == "" {
		o.Digest = digestOf(s)
	}
	return o, res, nil
}

func schedProperty(t *rapid.T, replay *schedCase) {
	var c schedCase
	if replay != nil {
		c = *replay
	} else {
		m := model.New(func() int64 { return sut.Epoch.UnixMilli() })
		for i, n := 0, rapid.IntRange(0, 5).Draw(t, "nsetup"); i < n; i++ {
			c.Setup = append(c.Setup, gen.WriterCmd(t, m, schedKeys))
		}
		nt := 2
		if rapid.IntRange(0, 5).Draw(t, "three") == 0 {
			nt = 3
		}
		if rapid.IntRange(0, 4).Draw(t, "readvsremove") == 0 {
			// a reader of a collection against a command that removes or replaces that very key: the reader's
			// existence check and its read of the value are two keyspace steps
			k := gen.Key(t, schedKeys, "rk")
			kind := rapid.SampledFrom([]string{"list", "hash", "set", "zset", "string"}).Draw(t, "rkind")
			var seed []string
			var readers [][]string
			switch kind {
			case "list":
				seed = []string{"RPUSH", k, "e1", "e2", "e3"}
				readers = [][]string{{"LRANGE", k, "0", "-1"}, {"LLEN", k}, {"LINDEX", k, "1"}}
			case "hash":
				seed = []string{"HSET", k, "f", "v", "g", "w"}
				readers = [][]string{{"HGET", k, "f"}, {"HLEN", k}, {"HEXISTS", k, "g"}, {"HMGET", k, "f", "g"}, {"HSTRLEN", k, "f"}}
			case "set":
				seed = []string{"SADD", k, "m1", "m2", "m3"}
				readers = [][]string{{"SCARD", k}, {"SISMEMBER", k, "m1"}, {"SMISMEMBER", k, "m1", "zz"}}
			case "zset":
				seed = []string{"ZADD", k, "1", "m1", "2", "m2"}
				readers = [][]string{{"ZCARD", k}, {"ZSCORE", k, "m1"}, {"ZRANK", k, "m2"}, {"ZCOUNT", k, "-inf", "+inf"}, {"ZMSCORE", k, "m1", "zz"}}
			default:
				seed = []string{"SET", k, "hello"}
				readers = [][]string{{"GET", k}, {"STRLEN", k}, {"GETRANGE", k, "1", "3"}, {"TTL", k}, {"TYPE", k}}
			}
			c.Setup = append(c.Setup, []string{"DEL", k}, seed)
			other := schedKeys[0]
			if other == k {
				other = schedKeys[1]
			}
			removers := [][]string{{"DEL", k}, {"FLUSHDB"}, {"RENAME", k, other}, {"SET", k, "replaced"}, {"GETDEL", k}, {"FLUSHALL"}, {"SWAPDB", "0", "1"}, {"LTRIM", k, "1", "0"}, {"PEXPIREAT", k, "1"}}
			c.Tasks = append(c.Tasks, rapid.SampledFrom(readers).Draw(t, "reader"), rapid.SampledFrom(removers).Draw(t, "remover"))
			nt = 0
		}
		for i := 0; i < nt; i++ {
			c.Tasks = append(c.Tasks, genSchedCmd(t, m))
		}
	}
	allowed, err := sequentialOutcomes(c)
	if err != nil {
		t.Fatalf("HARNESS-ERROR: %v", err)
	}
	fail := func(steps []sched.Step, format string, a ...any) {
		msg := fmt.Sprintf(format, a...)
		c.Schedule = nil
		for _, st := range steps {
			pos := sort.SearchInts(st.Enabled, st.Chosen)
			c.Schedule = append(c.Schedule, pos)
		}
		b, _ := json.MarshalIndent(map[string]any{"property": "C05", "leg": "sched", "sched": c, "steps": steps, "failure": msg}, "", " ")
		p := engine.WriteRaw("C05", "sched", b)
		t.Fatalf("violation (replay %s): %s", p, msg)
	}
	describe := func() string {
		var seq []string
		for _, o := range allowed {
			seq = append(seq, "{"+o.key()+"}")
		}
		sort.Strings(seq)
		return strings.Join(seq, " or ")
	}
	check := func(o outcome, res sched.Result) {
		if res.Deadlock != "" {
			fail(res.Steps, "deadlock under a controlled schedule of %q: %s", c.Tasks, res.Deadlock)
		}
		for i, p := range res.Panics {
			fail(res.Steps, "task %d %q panicked: %s", i, c.Tasks[i], strings.SplitN(p, "\n", 2)[0])
		}
		if _, ok := allowed[o.key()]; !ok {
			fail(res.Steps, "commands %q on setup %q: the interleaving %s produced {%s}, which no sequential order produces (%s)", c.Tasks, c.Setup, renderSteps(res.Steps), o.key(), describe())
		}
	}
	if replay != nil && len(c.Schedule) > 0 {
		sc := c.Schedule
		o, res, err := runSchedule(c, func(step int, enabled []int) int {
			if step < len(sc) {
				return sc[step]
			}
			return 0
		})
		if err != nil {
			t.Fatalf("HARNESS-ERROR: %v", err)
		}
		check(o, res)
	}
	max := 24
	if evidence.Thorough() {
		max = 120
	}
	interleaved := false
	n, exhausted := sched.Explore(max, func(choose func(int, []int) int) ([]sched.Step, bool) {
		o, res, err := runSchedule(c, choose)
		if err != nil {
			t.Fatalf("HARNESS-ERROR: %v", err)
		}
		check(o, res)
		// did two tasks really alternate (a task was let go between two steps of another)?
		last, switches := -1, 0
		for _, st := range res.Steps {
			if st.Chosen != last {
				switches++
				last = st.Chosen
			}
		}
		if switches > len(c.Tasks) {
			interleaved = true
		}
		return res.Steps, false
	})
	rec.Add("schedules", int64(n))
	if exhausted {
		rec.Add("cases_with_all_schedules_enumerated", 1)
	}
	shared := false
	seen := map[string]bool{}
	for _, task := range c.Tasks {
		for _, a := range task[1:] {
			for _, k := range schedKeys {
				if a == k {
					if seen[k] {
						shared = true
					}
				}
			}
		}
		for _, a := range task[1:] {
			seen[a] = true
		}
		if len(task) == 1 || strings.EqualFold(task[0], "SWAPDB") || strings.EqualFold(task[0], "KEYS") {
			shared = true // whole-keyspace commands touch every key
		}
	}
	if interleaved {
		rec.Class("sched: steps of different commands alternated")
	} else {
		rec.Class("sched: commands were serialised by the server (every attempt to interleave blocked)")
	}
	b, _ := json.Marshal(c)
	rec.Case("sched:"+string(b), shared, map[string]any{"leg": "schedule-controlled", "setup": c.Setup, "commands": c.Tasks, "schedules": n, "all_enumerated": exhausted, "sequential_outcomes": len(allowed)})
}

func renderSteps(steps []sched.Step) string {
	var out []string
	for _, st := range steps {
		s := fmt.Sprintf("t%d@%s", st.Chosen, st.Point)
		if st.Blocked {
			s += "(waits)"
		}
		out = append(out, s)
	}
	return strings.Join(out, " ")
}

func TestSchedules(t *testing.T) {
	if common.ReplayPath() != "" {
		t.Skip()
	}
	defer common.Verdict(t, rec, "sched")
	rapid.Check(t, func(t *rapid.T) { schedProperty(t, nil) })
}
