package c05

import (
	"encoding/json"
	"fmt"
	"os"
	"sort"
	"strconv"
	"strings"
	"sync"
	"sync/atomic"
	"testing"
	"time"

	"pgregory.net/rapid"

	"verifharness/common"
	"verifharness/engine"
	"verifharness/evidence"
	"verifharness/findings"
	"verifharness/sut"
)

var rec *evidence.Recorder

func TestMain(m *testing.M) {
	rec = evidence.New("C05", "exploration",
		"free-running multi-client stress against a subprocess server (restarted and reported if it dies): 3–8 TCP clients each run a rapid-generated script of 20–150 read-modify-write commands on shared keys — INCR/INCRBY/DECRBY on one counter, APPEND on one string, LPUSH/RPOP on one list, SADD/SREM of per-operation unique members on one set, HINCRBY on one hash field, ZINCRBY on one member, MSET of two keys with one value, MGET of those two keys, LMOVE between two lists — while another connection issues SAVE / REWRITEAOF in a loop. "+
			"Oracle: conservation invariants that every sequential order of the acknowledged commands satisfies: final counter = sum of acknowledged increments; final string length = sum of appended lengths; list length = acknowledged pushes − successful pops, and every popped element was pushed exactly once; the set contains exactly the members whose SADD was acknowledged and not later removed by the same client; hash field and score = sum of increments; every MGET sees the two MSET keys equal; the two lists of the LMOVE pair together hold exactly the elements that were pushed; "+
			"the process is alive and answers PING afterwards; 'panic:' / 'fatal error:' on its stderr is a violation. "+
			"Schedule-controlled leg: two or three generated commands (all families, multi-key and whole-keyspace commands such as FLUSHDB/FLUSHALL/SWAPDB, on a generated dataset over keys {a,b,c}) are issued by concurrent embedded callers while a controller owns the interleaving of their keyspace steps (yield hook at the entry of keysExist/getValues/setValues/setExpiry/deleteKey/flush/swap/state copy and before the command lock) and enumerates the schedules depth-first (≤ 24 per case quick, ≤ 120 thorough); the replies and final dataset of every schedule must equal those of one sequential order of the same commands run on a fresh server, with no deadlock and no panic. "+
			"A case is one set of scripts (or one dataset × command tuple with all its schedules); non-trivial = at least two clients/commands operate on the same key; distinct = FNV-64 of the case.",
		"the interleaving is whatever the Go scheduler and the kernel produce: a passing run shows only that no violation occurred on the schedules that happened; the saved scripts are the reproducible unit, not the schedule",
		"in the schedule-controlled leg a released task that stays silent for 15 ms is taken to wait for a lock; interleaving happens at the yield points, not inside a keyspace function; commands with random results are excluded from that leg (their sequential outcome is not unique)",
		"data-race reports are not a verdict",
		"third leg (embedded stress): the same scripts issued by 3–8 goroutines through the embedded API of an in-process server in tight loops, expiry sampler every 300 µs, a churn burst of 6 400 writes over keys that have just expired, and a restart from the append-only log that must reproduce the dataset; the TCP leg also kills and restarts the subprocess in one case in three")
	common.Main(m, rec)
}

type cop struct {
	Cmd []string `json:"cmd"`
}

type scripts struct {
	Clients    [][]cop `json:"clients"`
	Background bool    `json:"background"`
	Restart    bool    `json:"restart"`
}

var proc *sut.Proc

func server(t interface{ Fatalf(string, ...any) }) *sut.Proc {
	if proc != nil && proc.Alive() {
		return proc
	}
	// (an eviction policy with an unreachable limit: the background expiry sampler only runs under a policy)
	p, err := sut.StartProc(sut.ProcOpts{AOFSync: "no", Policy: "allkeys-lru", MaxMemory: 1 << 40, EvictionInterval: 3})
	if err != nil {
		t.Fatalf("HARNESS-ERROR: %v", err)
	}
	proc = p
	rec.Add("server_restarts", 1)
	return p
}

func genScripts(t *rapid.T) scripts {
	nc := rapid.IntRange(3, 8).Draw(t, "clients")
	var s scripts
	s.Background = rapid.IntRange(0, 2).Draw(t, "bg") > 0
	s.Restart = rapid.IntRange(0, 2).Draw(t, "restart") == 0
	focus := rapid.IntRange(0, 9).Draw(t, "focus") // bias the whole case towards one family so that contention is high
	for c := 0; c < nc; c++ {
		n := rapid.IntRange(20, 150).Draw(t, "nops")
		var ops []cop
		for i := 0; i < n; i++ {
			kind := rapid.IntRange(0, 9).Draw(t, "kind")
			if rapid.IntRange(0, 2).Draw(t, "usefocus") > 0 {
				kind = focus
			}
			id := fmt.Sprintf("c%d-%d", c, i)
			switch kind {
			case 0:
				ops = append(ops, cop{[]string{"INCR", "cnt"}})
			case 1:
				ops = append(ops, cop{[]string{"INCRBY", "cnt", strconv.Itoa(rapid.IntRange(-5, 9).Draw(t, "d"))}})
			case 2:
				ops = append(ops, cop{[]string{"APPEND", "str", strings.Repeat("x", rapid.IntRange(1, 4).Draw(t, "l"))}})
			case 3:
				if rapid.IntRange(0, 2).Draw(t, "pop") == 0 {
					ops = append(ops, cop{[]string{"RPOP", "lst"}})
				} else {
					ops = append(ops, cop{[]string{"LPUSH", "lst", id}})
				}
			case 4:
				ops = append(ops, cop{[]string{"SADD", "set", id}})
			case 5:
				ops = append(ops, cop{[]string{"HINCRBY", "hsh", "f", strconv.Itoa(rapid.IntRange(1, 5).Draw(t, "d"))}})
			case 6:
				ops = append(ops, cop{[]string{"ZINCRBY", "zst", strconv.Itoa(rapid.IntRange(1, 5).Draw(t, "d")), "m"}})
			case 7:
				if rapid.IntRange(0, 1).Draw(t, "mget") == 0 {
					ops = append(ops, cop{[]string{"MGET", "p1", "p2"}})
				} else {
					ops = append(ops, cop{[]string{"MSET", "p1", id, "p2", id}})
				}
			case 9:
				// keys private to this client that expire within a millisecond and are written again without an
				// expiry while the background expiry sampler runs every few milliseconds: a value written without
				// an expiry must stay
				ek := fmt.Sprintf("e%d-%d", c, rapid.IntRange(0, 29).Draw(t, "ek"))
				switch rapid.IntRange(0, 3).Draw(t, "churn") {
				case 0:
					ops = append(ops, cop{[]string{"SET", ek, "volatile", "PX", "1"}})
				case 1:
					ops = append(ops, cop{[]string{"SET", ek, "fresh-" + id}})
				default:
					ops = append(ops, cop{[]string{"GET", ek}})
				}
			default:
				if rapid.IntRange(0, 1).Draw(t, "mv") == 0 {
					ops = append(ops, cop{[]string{"RPUSH", "la", id}})
				} else {
					ops = append(ops, cop{[]string{"LMOVE", "la", "lb", "LEFT", "RIGHT"}})
				}
			}
		}
		s.Clients = append(s.Clients, ops)
	}
	return s
}

type tally struct {
	mu        sync.Mutex
	cnt       int64
	strLen    int64
	pushed    map[string]int
	popped    map[string]int
	pops      int
	sadd      map[string]bool
	hsum      int64
	zsum      float64
	torn      []string
	laPushed  map[string]bool
	malformed []string
}

// client is one caller of the server: a TCP connection, or the embedded API of an in-process server.
type client interface {
	Do(args ...string) sut.Reply
	Close()
}

type embClient struct{ s *sut.Server }

func (e embClient) Do(args ...string) sut.Reply { return e.s.DoInline(args...) }
func (e embClient) Close()                      {}

func runCase(t *rapid.T, replay *scripts) { runStress(t, replay, false) }

// runStress runs one stress case against the long-lived subprocess server over TCP, or (embedded) against a fresh
// in-process server whose callers are goroutines using the embedded API in tight loops: far more contention per
// second than TCP round trips allow, at the price that a crash of the server is a crash of the check process (the
// case is journalled first, and the driver reports such a crash as a violation with the journal as replay).
func runStress(t *rapid.T, replay *scripts, embedded bool) {
	var p *sut.Proc
	var emb *sut.Server
	var embOpts sut.Opts
	leg := "stress"
	if embedded {
		leg = "embedded"
		embOpts = sut.Opts{DataDir: sut.NewScratchDir("c05e"), AOFSync: "no", Policy: "allkeys-lru", MaxMemory: 1 << 40, EvictionInterval: 300 * time.Microsecond, EvictionSample: 300, RealClock: true}
		defer os.RemoveAll(embOpts.DataDir)
		var err error
		emb, err = sut.New(embOpts)
		if err != nil {
			t.Fatalf("HARNESS-ERROR: %v", err)
		}
		defer func() { emb.Close() }()
	} else {
		p = server(t)
	}
	dialClient := func() (client, error) {
		if embedded {
			return embClient{emb}, nil
		}
		c, err := sut.Dial(p.Opts.Port)
		if err != nil {
			return nil, err
		}
		c.Timeout = 15 * time.Second
		return c, nil
	}
	var s scripts
	if replay != nil {
		s = *replay
	} else {
		s = genScripts(t)
	}
	fail := func(format string, a ...any) {
		msg := fmt.Sprintf(format, a...)
		b, _ := json.MarshalIndent(map[string]any{"property": "C05", "scripts": s, "failure": msg}, "", " ")
		pth := engine.WriteRaw("C05", leg, b)
		t.Fatalf("violation (replay %s): %s", pth, msg)
	}
	if embedded {
		jb, _ := json.MarshalIndent(map[string]any{"property": "C05", "leg": "embedded", "scripts": s, "failure": "the check process died while this case was running"}, "", " ")
		_ = os.WriteFile("inflight.json", jb, 0o644)
	}
	admin, err := dialClient()
	if err != nil {
		t.Fatalf("HARNESS-ERROR: dial: %v", err)
	}
	defer func() { admin.Close() }()
	admin.Do("FLUSHALL")
	admin.Do("RPUSH", "lb", "seed") // LMOVE needs an existing destination in this server
	tl := &tally{pushed: map[string]int{}, popped: map[string]int{}, sadd: map[string]bool{}, laPushed: map[string]bool{}}
	var wg sync.WaitGroup
	stop := make(chan struct{})
	if s.Background {
		wg.Add(1)
		go func() {
			defer wg.Done()
			c, err := dialClient()
			if err != nil {
				return
			}
			defer c.Close()
			for i := 0; ; i++ {
				select {
				case <-stop:
					return
				default:
				}
				if i%2 == 0 {
					c.Do("SAVE")
				} else {
					c.Do("REWRITEAOF")
				}
				time.Sleep(time.Millisecond)
			}
		}()
	}
	var cw sync.WaitGroup
	for ci, ops := range s.Clients {
		cw.Add(1)
		go func(ci int, ops []cop) {
			defer cw.Done()
			c, err := dialClient()
			if err != nil {
				return
			}
			defer c.Close()
			private := map[string]string{} // key -> value last written without an expiry ("" = may be absent)
			for _, o := range ops {
				r := c.Do(o.Cmd...)
				if len(o.Cmd) >= 2 && strings.HasPrefix(o.Cmd[1], "e") && (o.Cmd[0] == "SET" || o.Cmd[0] == "GET") && !r.Val.IsErr() {
					switch {
					case o.Cmd[0] == "SET" && len(o.Cmd) == 3:
						private[o.Cmd[1]] = o.Cmd[2]
					case o.Cmd[0] == "SET":
						private[o.Cmd[1]] = ""
					default:
						if want := private[o.Cmd[1]]; want != "" {
							if got, _ := r.Val.Text(); got != want {
								tl.mu.Lock()
								tl.torn = append(tl.torn, fmt.Sprintf("client %d wrote %s = %q without an expiry (acknowledged) and nobody else writes that key; a later GET answers %s", ci, o.Cmd[1], want, r.String()))
								tl.mu.Unlock()
							}
						}
					}
					continue
				}
				if r.ParseErr != "" && !r.Strict {
					tl.mu.Lock()
					tl.malformed = append(tl.malformed, fmt.Sprintf("%q -> %q (%s)", o.Cmd, trunc(string(r.Raw), 60), r.ParseErr))
					tl.mu.Unlock()
					return
				}
				if r.Val.IsErr() {
					continue // not acknowledged: no effect expected
				}
				tl.mu.Lock()
				switch o.Cmd[0] {
				case "INCR":
					tl.cnt++
				case "INCRBY":
					d, _ := strconv.ParseInt(o.Cmd[2], 10, 64)
					tl.cnt += d
				case "APPEND":
					tl.strLen += int64(len(o.Cmd[2]))
				case "LPUSH":
					tl.pushed[o.Cmd[2]]++
				case "RPOP":
					if !r.Val.IsNil() {
						if v, ok := r.Val.Text(); ok {
							tl.popped[v]++
							tl.pops++
						}
					}
				case "SADD":
					if n, _ := r.Val.AsInt(); n == 1 {
						tl.sadd[o.Cmd[2]] = true
					} else {
						tl.torn = append(tl.torn, fmt.Sprintf("SADD of the unique member %s answered %s", o.Cmd[2], r.String()))
					}
				case "HINCRBY":
					d, _ := strconv.ParseInt(o.Cmd[3], 10, 64)
					tl.hsum += d
				case "ZINCRBY":
					d, _ := strconv.ParseFloat(o.Cmd[2], 64)
					tl.zsum += d
				case "MGET":
					l, ok := r.Val.Strings()
					if ok && len(l) == 2 && l[0] != l[1] {
						tl.torn = append(tl.torn, fmt.Sprintf("MGET p1 p2 saw %q and %q: an MSET of both keys was half applied", l[0], l[1]))
					}
				case "RPUSH":
					tl.laPushed[o.Cmd[2]] = true
				}
				tl.mu.Unlock()
			}
		}(ci, ops)
	}
	done := make(chan struct{})
	go func() { cw.Wait(); close(done) }()
	select {
	case <-done:
	case <-time.After(sut.Patience(60 * time.Second)):
		close(stop)
		if embedded {
			// callers of the embedded API that never return: there is no process to kill and no way to continue
			fail("the embedded callers made no progress for %v: the server hangs", sut.Patience(60*time.Second))
		}
		if !p.Alive() {
			trace := p.CrashTrace()
			proc = nil
			fail("the server process died under concurrent clients: %s", firstLines(trace, 16))
		}
		// all clients blocked for 60 s while the process is alive: a hang
		probe, err := sut.Dial(p.Opts.Port)
		hung := true
		if err == nil {
			probe.Timeout = 5 * time.Second
			if txt, _ := probe.Do("PING").Val.Text(); txt == "PONG" {
				hung = false
			}
			probe.Close()
		}
		p.Kill()
		proc = nil
		if hung {
			fail("the clients made no progress for 60 s and a fresh connection's PING is not answered: the server hangs")
		}
		fmt.Println("HARNESS-ERROR: clients did not finish within 60 s although the server answers PING (inconclusive)")
		return
	}
	close(stop)
	wg.Wait()
	if !embedded && (!p.Alive() || p.WaitExit(100*time.Millisecond)) {
		trace := p.CrashTrace()
		proc = nil
		fail("the server process died under concurrent clients: %s", firstLines(trace, 16))
	}
	if len(tl.malformed) > 0 {
		fail("a client received a malformed reply under concurrency: %s", tl.malformed[0])
	}
	if txt, _ := admin.Do("PING").Val.Text(); txt != "PONG" {
		fail("after the run the server does not answer PING")
	}
	var problems []string
	known := func(id, msg string) {
		if findings.IsOpen(id) {
			rec.Excluded(id)
			return
		}
		problems = append(problems, msg)
	}
	for _, m := range tl.torn {
		known("F-C05-commands-not-atomic", m)
	}
	if r := admin.Do("GET", "cnt"); true {
		got := int64(0)
		if !r.Val.IsNil() {
			got, _ = r.Val.AsInt()
		}
		if got != tl.cnt {
			known("F-C05-commands-not-atomic", fmt.Sprintf("counter is %d, the acknowledged increments add up to %d (lost or duplicated updates)", got, tl.cnt))
		}
	}
	if n, _ := admin.Do("STRLEN", "str").Val.AsInt(); n != tl.strLen {
		known("F-C05-commands-not-atomic", fmt.Sprintf("string length is %d, the acknowledged APPENDs add up to %d", n, tl.strLen))
	}
	{
		l, _ := admin.Do("LRANGE", "lst", "0", "-1").Val.Strings()
		remaining := map[string]int{}
		for _, x := range l {
			remaining[x]++
		}
		for id, n := range tl.pushed {
			if remaining[id]+tl.popped[id] != n {
				known("F-C05-commands-not-atomic", fmt.Sprintf("list element %s was pushed %d time(s) but is %d time(s) in the list and was popped %d time(s)", id, n, remaining[id], tl.popped[id]))
				break
			}
		}
		for id := range tl.popped {
			if tl.pushed[id] == 0 {
				known("F-C05-commands-not-atomic", fmt.Sprintf("RPOP returned %q, which was never pushed", id))
				break
			}
		}
	}
	{
		l, _ := admin.Do("SMEMBERS", "set").Val.Strings()
		have := map[string]bool{}
		for _, x := range l {
			have[x] = true
		}
		for id := range tl.sadd {
			if !have[id] {
				known("F-C05-commands-not-atomic", fmt.Sprintf("member %s was acknowledged by SADD but is not in the set (%d of %d present)", id, len(have), len(tl.sadd)))
				break
			}
		}
	}
	if r := admin.Do("HGET", "hsh", "f"); true {
		var flat []string
		flatten(r, &flat)
		got := int64(0)
		if len(flat) > 0 {
			got, _ = strconv.ParseInt(flat[0], 10, 64)
		}
		if got != tl.hsum {
			known("F-C05-commands-not-atomic", fmt.Sprintf("hash field is %d, the acknowledged HINCRBYs add up to %d", got, tl.hsum))
		}
	}
	if r := admin.Do("ZSCORE", "zst", "m"); true {
		got, _ := r.Val.AsFloat()
		if got != tl.zsum {
			known("F-C05-commands-not-atomic", fmt.Sprintf("score is %v, the acknowledged ZINCRBYs add up to %v", got, tl.zsum))
		}
	}
	{
		la, _ := admin.Do("LRANGE", "la", "0", "-1").Val.Strings()
		lb, _ := admin.Do("LRANGE", "lb", "0", "-1").Val.Strings()
		seen := map[string]int{}
		for _, x := range append(la, lb...) {
			seen[x]++
		}
		for id := range tl.laPushed {
			if seen[id] != 1 {
				known("F-C05-commands-not-atomic", fmt.Sprintf("element %s was pushed once and moved with LMOVE; it is now present %d time(s) in the two lists", id, seen[id]))
				break
			}
		}
	}
	if len(problems) > 0 {
		fail("%s", strings.Join(problems, "; "))
	}
	// Expiry churn burst (embedded leg, one case in three): many keys expire at once while the background sampler
	// is busy removing them, and their owners write them again without an expiry: every such write is
	// acknowledged and must stay.
	if embedded && s.Restart {
		var bw sync.WaitGroup
		var lost atomic.Int64
		var firstLost atomic.Value
		for g := 0; g < 4; g++ {
			bw.Add(1)
			go func(g int) {
				defer bw.Done()
				c := embClient{emb}
				for round := 0; round < 4; round++ {
					for k := 0; k < 400; k++ {
						c.Do("SET", fmt.Sprintf("burst%d-%d", g, k), "volatile", "PX", "1")
					}
					time.Sleep(2 * time.Millisecond)
					for k := 0; k < 400; k++ {
						c.Do("SET", fmt.Sprintf("burst%d-%d", g, k), fmt.Sprintf("fresh%d", round))
					}
					for k := 0; k < 400; k++ {
						key := fmt.Sprintf("burst%d-%d", g, k)
						if got, _ := c.Do("GET", key).Val.Text(); got != fmt.Sprintf("fresh%d", round) {
							lost.Add(1)
							firstLost.CompareAndSwap(nil, fmt.Sprintf("%s reads %q", key, got))
						}
					}
				}
			}(g)
		}
		bw.Wait()
		if n := lost.Load(); n > 0 {
			fail("expiry churn: %d of 6400 values written without an expiry over keys whose expiry had just passed (acknowledged, no other writer) were gone afterwards while the background expiry sampler was running, e.g. %v", n, firstLost.Load())
		}
		rec.Class("embedded: expiry churn burst under a running sampler")
	}
	// Restart leg (one case in three): the order in which the commands took effect is also the order in which
	// they were logged, so a server restarted from the append-only log (after the process was killed) serves the
	// dataset the clients left behind. (The background SAVE/REWRITEAOF loop has been stopped: no rewrite is in flight.)
	if s.Restart {
		snapshotOf := func(c client) string {
			var parts []string
			for _, q := range [][]string{{"GET", "cnt"}, {"GET", "str"}, {"LRANGE", "lst", "0", "-1"}, {"SMEMBERS", "set"}, {"HGETALL", "hsh"}, {"ZRANGE", "zst", "0", "-1", "WITHSCORES"},
				{"GET", "p1"}, {"GET", "p2"}, {"LRANGE", "la", "0", "-1"}, {"LRANGE", "lb", "0", "-1"}} {
				r := c.Do(q...)
				var flat []string
				flatten(r, &flat)
				if txt, ok := r.Val.Text(); ok && len(flat) == 0 {
					flat = []string{txt}
				}
				if q[0] == "SMEMBERS" || q[0] == "HGETALL" {
					sort.Strings(flat)
				}
				parts = append(parts, strings.Join(q[:2], " ")+" = "+strings.Join(flat, ","))
			}
			return strings.Join(parts, "; ")
		}
		before := snapshotOf(admin)
		var after string
		if embedded {
			emb.WaitAsync()
			emb.Close()
			o2 := embOpts
			o2.RestoreAOF = true
			ns, err := sut.New(o2)
			if err != nil {
				fail("the server did not come up again from its append-only log: %v", err)
			}
			emb = ns
			admin = embClient{emb}
			rec.Add("server_restarts", 1)
			after = snapshotOf(admin)
		} else {
			opts := p.Opts
			p.Kill()
			proc = nil
			opts.Port, opts.RestoreAOF = 0, true
			np, err := sut.StartProc(opts)
			if err != nil {
				fail("the server did not come up again from its append-only log after being killed: %v", err)
			}
			proc = np
			rec.Add("server_restarts", 1)
			c2, err := sut.Dial(np.Opts.Port)
			if err != nil {
				t.Fatalf("HARNESS-ERROR: dial after restart: %v", err)
			}
			c2.Timeout = 10 * time.Second
			after = snapshotOf(c2)
			c2.Do("REWRITEAOF") // keeps the log of the long-lived server short
			c2.Close()
		}
		if after != before {
			fail("after the concurrent run the server was stopped (TCP leg: killed) and restarted from the append-only log: the dataset differs from the one the clients left behind.\nbefore: %s\nafter:  %s", trunc(before, 900), trunc(after, 900))
		}
		rec.Class(leg + ": restart from the append-only log")
	}
	shared := len(s.Clients) >= 2
	b, _ := json.Marshal(s)
	total := 0
	for _, c := range s.Clients {
		total += len(c)
	}
	rec.Add("commands_executed", int64(total))
	rec.Case(leg+":"+string(b), shared, map[string]any{"leg": leg, "clients": len(s.Clients), "commands": total, "background_save_rewrite": s.Background, "first_commands_of_client_0": renderOps(s.Clients[0], 6)})
}

func renderOps(ops []cop, n int) []string {
	out := []string{}
	for i, o := range ops {
		if i >= n {
			break
		}
		out = append(out, fmt.Sprintf("%q", o.Cmd))
	}
	return out
}

func flatten(r sut.Reply, out *[]string) {
	var rec func(v any)
	_ = rec
	if l, ok := r.Val.List(); ok {
		for _, e := range l {
			if t, ok := e.Text(); ok {
				*out = append(*out, t)
			}
		}
		return
	}
	if t, ok := r.Val.Text(); ok && !r.Val.IsErr() {
		*out = append(*out, t)
	}
}

func firstLines(s string, n int) string {
	l := strings.SplitN(s, "\n", n+1)
	if len(l) > n {
		l = l[:n]
	}
	return strings.Join(l, "\n")
}

func trunc(s string, n int) string {
	if len(s) > n {
		return s[:n] + "…"
	}
	return s
}

func TestStress(t *testing.T) {
	if common.ReplayPath() != "" {
		t.Skip()
	}
	defer common.Verdict(t, rec, "stress")
	defer func() {
		if proc != nil {
			proc.Kill()
		}
	}()
	rapid.Check(t, func(t *rapid.T) { runCase(t, nil) })
}

func TestReplay(t *testing.T) {
	p := common.ReplayPath()
	if p == "" {
		t.Skip()
	}
	var rf struct {
		Leg     string     `json:"leg"`
		Scripts scripts    `json:"scripts"`
		Sched   *schedCase `json:"sched"`
	}
	if err := common.LoadJSON(p, &rf); err != nil {
		t.Fatalf("HARNESS-ERROR: %v", err)
	}
	defer func() {
		if proc != nil {
			proc.Kill()
		}
		if t.Failed() {
			fmt.Printf("VIOLATION property=C05 replay=%s\n", p)
		}
	}()
	if rf.Leg == "embedded" {
		for i := 0; i < 3 && !t.Failed(); i++ {
			rapid.Check(t, func(t *rapid.T) { runStress(t, &rf.Scripts, true) })
		}
		return
	}
	if rf.Leg == "sched" && rf.Sched != nil {
		rapid.Check(t, func(t *rapid.T) { schedProperty(t, rf.Sched) })
		return
	}
	// the schedule is not reproducible: the scripts are run several times
	for i := 0; i < 5 && !t.Failed(); i++ {
		rapid.Check(t, func(t *rapid.T) { runCase(t, &rf.Scripts) })
	}
}

func TestEmbeddedStress(t *testing.T) {
	if common.ReplayPath() != "" {
		t.Skip()
	}
	defer common.Verdict(t, rec, "embedded")
	rapid.Check(t, func(t *rapid.T) { runStress(t, nil, true) })
}
