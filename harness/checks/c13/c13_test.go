package c13

import (
	"encoding/json"
	"fmt"
	"sort"
	"strings"
	"testing"

	"pgregory.net/rapid"

	"verifharness/common"
	"verifharness/engine"
	"verifharness/evidence"
	"verifharness/gen"
	"verifharness/model"
	"verifharness/resp"
	"verifharness/sut"
)

var rec *evidence.Recorder

var keys = []string{"a", "b", "c"}
var dbs = []int{0, 1}

// pureByStatement: algebra commands without a destination that the property names explicitly, whatever
// the command table's classification says (SINTER and SCARD carry the "write" category in this tree).
var pureByStatement = []string{"sunion", "sinter", "sdiff", "sintercard", "zunion", "zinter", "zdiff", "scard"}

func TestMain(m *testing.M) {
	rec = evidence.New("C13", "exploration",
		"rapid-generated cases: (1) a dataset over all value types in databases 0 and 1, some keys with deadlines, built from 4–14 writer commands; (2) 1–8 probes, each one of: "+
			"(a) a command the live command table classifies as read (COMMAND LIST FILTERBY ACLCAT read, re-read at start-up; plus the destination-less algebra commands the property names) with arguments from the family grammars (valid, boundary, malformed, wrong-type) or type-directed random arguments — oracle: the digest (TYPE, full read, PEXPIRETIME of every key in both databases) is identical before and after; "+
			"(b) any command from the family grammars — oracle: if it is answered with an error, the digest is identical before and after; (c) a single-key write — oracle: the digest of every other key is unchanged (no shared structure, e.g. between a ...STORE destination and its sources); (d) a ...STORE command to set up (c). "+
			"A case is dataset + probes; non-trivial = some probe addressed an existing key holding a collection; distinct = FNV-64 of all commands.",
		"the virtual clock stands still within a case, so no key expires during a probe",
		"access-frequency/recency bookkeeping (TOUCH, OBJECTFREQ) is not part of the digest: the property lists values, membership, ordering, types and deadlines",
		"probe classes added: …STORE followed at once by in-place writes to destination and operand; multi-key commands with exactly one wrong-type operand whose other operands would have had an effect")
	common.Main(m, rec)
}

type world map[string]model.KeyState

func digest(s *sut.Server) world {
	w := world{}
	do := func(args ...string) (resp.Value, string) { r := s.Do(args...); return r.Val, r.Panic }
	for _, db := range dbs {
		_ = s.Select(db)
		for _, k := range append(append([]string{}, keys...), "nokey") {
			w[fmt.Sprintf("%d/%s", db, k)] = model.Observe(do, k)
		}
	}
	return w
}

func diff(a, b world, except string) string {
	ks := make([]string, 0, len(a))
	for k := range a {
		ks = append(ks, k)
	}
	sort.Strings(ks)
	for _, k := range ks {
		if k == except {
			continue
		}
		if a[k].Canon() != b[k].Canon() {
			return fmt.Sprintf("key %s changed: before %s, after %s", k, a[k].Canon(), b[k].Canon())
		}
	}
	return ""
}

func readSet(s *sut.Server) map[string]bool {
	set := map[string]bool{}
	r := s.Do("COMMAND", "LIST", "FILTERBY", "ACLCAT", "read")
	l, _ := r.Val.Strings()
	for _, n := range l {
		set[strings.ToLower(n)] = true
	}
	w := s.Do("COMMAND", "LIST", "FILTERBY", "ACLCAT", "write")
	wl, _ := w.Val.Strings()
	ws := map[string]bool{}
	for _, n := range wl {
		ws[strings.ToLower(n)] = true
	}
	for n := range set {
		if ws[n] {
			delete(set, n) // read and write: not read-only
		}
	}
	for _, n := range pureByStatement {
		set[n] = true
	}
	return set
}

type step struct {
	Kind  string   `json:"kind"`
	DB    int      `json:"db"`
	Cmd   []string `json:"cmd"`
	Reply string   `json:"reply,omitempty"`
}

func modelOf(s *sut.Server, db int) *model.Model {
	m := model.New(func() int64 { return s.Clock.Now().UnixMilli() })
	m.Cur = db
	do := func(args ...string) (resp.Value, string) { r := s.Do(args...); return r.Val, r.Panic }
	for _, k := range keys {
		ks := model.Observe(do, k)
		if !strings.HasPrefix(ks.Type, "!") {
			m.Adopt(db, k, ks)
		}
	}
	return m
}

var singleKeyWriters = []string{"SADD", "SREM", "ZADD", "ZREM", "HSET", "HDEL", "RPUSH", "LPOP", "APPEND", "SPOP", "ZINCRBY", "ZPOPMIN", "LSET", "SET", "INCR", "PEXPIRE", "PERSIST", "LTRIM", "ZREMRANGEBYRANK"}

func runCase(t *rapid.T, replay []step) {
	s, err := sut.New(sut.Opts{})
	if err != nil {
		t.Fatalf("HARNESS-ERROR: %v", err)
	}
	defer func() { s.Close(); s.RemoveDir() }()
	reads := readSet(s)
	names := make([]string, 0, len(reads))
	for n := range reads {
		names = append(names, n)
	}
	sort.Strings(names)
	rec.Set("read_commands_in_live_table", len(names))
	var trace []step
	fail := func(msg string) {
		p := writeReplay(trace, msg)
		t.Fatalf("violation (replay %s): %s", p, msg)
	}
	nontrivial := false
	exec := func(st step) {
		_ = s.Select(st.DB)
		var before world
		if st.Kind != "setup" {
			before = digest(s)
			_ = s.Select(st.DB)
			if len(st.Cmd) > 1 {
				if ks := before[fmt.Sprintf("%d/%s", st.DB, st.Cmd[1])]; ks.Type == model.THash || ks.Type == model.TList || ks.Type == model.TSet || ks.Type == model.TZSet {
					nontrivial = true
				}
			}
		}
		r := s.Do(st.Cmd...)
		st.Reply = r.String()
		trace = append(trace, st)
		if r.Panic != "" && st.Kind != "setup" {
			fail(fmt.Sprintf("%q panicked: %s", st.Cmd, strings.SplitN(r.Panic, "\n", 2)[0]))
		}
		switch st.Kind {
		case "read":
			if d := diff(before, digest(s), ""); d != "" {
				fail(fmt.Sprintf("read-only command %q changed the dataset: %s", st.Cmd, d))
			}
		case "any":
			if r.Val.IsErr() {
				if d := diff(before, digest(s), ""); d != "" {
					fail(fmt.Sprintf("command %q failed (%s) but changed the dataset: %s", st.Cmd, r.String(), d))
				}
			}
		case "single":
			if d := diff(before, digest(s), fmt.Sprintf("%d/%s", st.DB, st.Cmd[1])); d != "" {
				fail(fmt.Sprintf("write to key %q by %q changed another key: %s", st.Cmd[1], st.Cmd, d))
			}
		}
	}
	if replay != nil {
		for _, st := range replay {
			exec(st)
		}
		return
	}
	nsetup := rapid.IntRange(4, 14).Draw(t, "nsetup")
	for i := 0; i < nsetup; i++ {
		db := rapid.SampledFrom([]int{0, 0, 0, 1}).Draw(t, "db")
		_ = s.Select(db)
		exec(step{Kind: "setup", DB: db, Cmd: gen.WriterCmd(t, modelOf(s, db), keys)})
	}
	nprobe := rapid.IntRange(1, 8).Draw(t, "nprobe")
	for i := 0; i < nprobe; i++ {
		db := rapid.SampledFrom([]int{0, 0, 0, 1}).Draw(t, "db")
		_ = s.Select(db)
		m := modelOf(s, db)
		switch rapid.IntRange(0, 12).Draw(t, "probe") {
		case 10, 11:
			// a ...STORE command whose result may share structure with an operand (one operand, or further
			// operands that are missing / disjoint), followed at once by in-place writes to the destination and
			// to the operand: each write may change only the key it addresses
			kind := rapid.SampledFrom([]string{"set", "zset"}).Draw(t, "akind")
			var src []string
			for _, k := range keys {
				if e := m.Peek(m.Cur, k); e != nil && e.Type == kind {
					src = append(src, k)
				}
			}
			if len(src) == 0 {
				continue
			}
			s1 := rapid.SampledFrom(src).Draw(t, "asrc")
			var others []string
			for _, k := range keys {
				if k != s1 {
					others = append(others, k)
				}
			}
			dst := rapid.SampledFrom(others).Draw(t, "adst")
			var name string
			if kind == "set" {
				name = rapid.SampledFrom([]string{"SUNIONSTORE", "SINTERSTORE", "SDIFFSTORE"}).Draw(t, "astore")
			} else {
				name = rapid.SampledFrom([]string{"ZUNIONSTORE", "ZINTERSTORE", "ZDIFFSTORE", "ZRANGESTORE"}).Draw(t, "astore")
			}
			cmd := []string{name, dst, s1}
			switch {
			case name == "ZRANGESTORE":
				cmd = append(cmd, "0", "-1")
			case rapid.IntRange(0, 2).Draw(t, "aextra") > 0:
				cmd = append(cmd, rapid.SampledFrom([]string{"nokey", "nokey2", s1}).Draw(t, "aop2"))
			}
			rec.Class("store-then-write")
			exec(step{Kind: "any", DB: db, Cmd: cmd})
			for _, target := range []string{dst, s1, dst} {
				var w []string
				if kind == "set" {
					w = rapid.SampledFrom([][]string{{"SADD", target, "fresh-member"}, {"SREM", target, "m1"}, {"SREM", target, "m2"}, {"SMOVE", target, "nokey3", "m3"}, {"SADD", target, "m1", "zz"}}).Draw(t, "aw")
				} else {
					w = rapid.SampledFrom([][]string{{"ZADD", target, "42", "fresh-member"}, {"ZINCRBY", target, "5", "m1"}, {"ZREM", target, "m2"}, {"ZPOPMIN", target}, {"ZREMRANGEBYRANK", target, "0", "0"}}).Draw(t, "aw")
				}
				exec(step{Kind: "single", DB: db, Cmd: w})
				exec(step{Kind: "any", DB: db, Cmd: []string{"DEL", "nokey3"}})
			}
		case 12:
			// a multi-key command that must fail because one operand has the wrong type while the other operands
			// are such that the command would have had an effect: nothing may change
			var byType = map[string][]string{}
			for _, k := range keys {
				if e := m.Peek(m.Cur, k); e != nil {
					byType[e.Type] = append(byType[e.Type], k)
				}
			}
			pick := func(typ, label string) string {
				if len(byType[typ]) == 0 {
					return ""
				}
				return rapid.SampledFrom(byType[typ]).Draw(t, label)
			}
			wrong := func(not, label string) string {
				var c []string
				for typ, ks := range byType {
					if typ != not {
						c = append(c, ks...)
					}
				}
				sort.Strings(c)
				if len(c) == 0 {
					return ""
				}
				return rapid.SampledFrom(c).Draw(t, label)
			}
			var cands [][]string
			if a, b := pick("set", "fs"), wrong("set", "fw"); a != "" && b != "" {
				mem := "m1"
				if e := m.Peek(m.Cur, a); e != nil {
					for x := range e.Set {
						mem = x
						break
					}
					var ms []string
					for x := range e.Set {
						ms = append(ms, x)
					}
					sort.Strings(ms)
					if len(ms) > 0 {
						mem = rapid.SampledFrom(ms).Draw(t, "fmem")
					}
				}
				cands = append(cands, []string{"SMOVE", a, b, mem}, []string{"SUNIONSTORE", a, a, b}, []string{"SINTERSTORE", "fresh", a, b}, []string{"SDIFFSTORE", a, a, b}, []string{"SUNIONSTORE", b, a, b})
			}
			if a, b := pick("list", "fl"), wrong("list", "flw"); a != "" && b != "" {
				cands = append(cands, []string{"LMOVE", a, b, "LEFT", "RIGHT"}, []string{"LMOVE", a, b, "RIGHT", "LEFT"})
			}
			if a, b := pick("zset", "fz"), wrong("zset", "fzw"); a != "" && b != "" {
				cands = append(cands, []string{"ZUNIONSTORE", a, a, b}, []string{"ZINTERSTORE", "fresh", a, b}, []string{"ZDIFFSTORE", a, a, b}, []string{"ZRANGESTORE", a, b, "0", "-1"})
			}
			if a, b := pick("string", "fstr"), wrong("string", "fstrw"); a != "" && b != "" {
				cands = append(cands, []string{"MGET", a, b}, []string{"APPEND", b, "x"}, []string{"INCR", b}, []string{"SETRANGE", b, "0", "x"}, []string{"GETDEL", b}, []string{"GETEX", b, "EX", "100"})
			}
			if len(cands) == 0 {
				continue
			}
			rec.Class("multi-key command with a wrong-type operand")
			exec(step{Kind: "any", DB: db, Cmd: rapid.SampledFrom(cands).Draw(t, "fcmd")})
		case 0, 1, 2, 3, 4:
			// a read-classified command
			var cmd []string
			for try := 0; try < 12 && cmd == nil; try++ {
				c := gen.AnyFamilyCmd(t, m, keys)
				if reads[strings.ToLower(c[0])] {
					cmd = c
				}
			}
			if cmd == nil || rapid.IntRange(0, 4).Draw(t, "rawargs") == 0 {
				cmd = gen.NamedCmdRandomArgs(t, rapid.SampledFrom(names).Draw(t, "rname"), keys)
			}
			rec.Class("read:" + strings.ToLower(cmd[0]))
			exec(step{Kind: "read", DB: db, Cmd: cmd})
		case 5, 6:
			cmd := gen.AnyFamilyCmd(t, m, keys)
			if cmd[0] == "FLUSHDB" {
				cmd = []string{"TYPE", "a"}
			}
			rec.Class("any")
			exec(step{Kind: "any", DB: db, Cmd: cmd})
		case 7, 8:
			// single-key write: other keys must not move
			var cmd []string
			for try := 0; try < 20 && cmd == nil; try++ {
				c := gen.AnyFamilyCmd(t, m, keys)
				for _, n := range singleKeyWriters {
					if c[0] == n && len(c) > 1 {
						cmd = c
					}
				}
			}
			if cmd == nil {
				cmd = []string{"SADD", gen.Key(t, keys, "k"), "zz"}
			}
			rec.Class("single-key-write")
			exec(step{Kind: "single", DB: db, Cmd: cmd})
		default:
			name := rapid.SampledFrom([]string{"SUNIONSTORE", "SINTERSTORE", "SDIFFSTORE", "ZUNIONSTORE", "ZINTERSTORE", "ZDIFFSTORE", "ZRANGESTORE"}).Draw(t, "store")
			cmd := []string{name, gen.Key(t, keys, "dst"), gen.Key(t, keys, "s1")}
			if name == "ZRANGESTORE" {
				cmd = append(cmd, "-inf", "+inf")
			} else if rapid.IntRange(0, 1).Draw(t, "two") == 1 {
				cmd = append(cmd, gen.Key(t, keys, "s2"))
			}
			rec.Class("store")
			exec(step{Kind: "any", DB: db, Cmd: cmd})
		}
	}
	var canon strings.Builder
	sample := make([]string, 0, len(trace))
	for _, st := range trace {
		canon.WriteString(st.Kind + "|" + fmt.Sprint(st.DB) + "|" + strings.Join(st.Cmd, "\x1f") + "\x1e")
		sample = append(sample, fmt.Sprintf("[%s db%d] %q -> %s", st.Kind, st.DB, st.Cmd, trunc(st.Reply, 60)))
	}
	rec.Case(canon.String(), nontrivial, sample)
}

func trunc(s string, n int) string {
	if len(s) > n {
		return s[:n] + "…"
	}
	return s
}

type replayFile struct {
	Property string `json:"property"`
	Leg      string `json:"leg"`
	Steps    []step `json:"steps"`
	Failure  string `json:"failure"`
}

func writeReplay(trace []step, msg string) string {
	b, _ := json.MarshalIndent(replayFile{Property: "C13", Leg: "random", Steps: trace, Failure: msg}, "", " ")
	return engine.WriteRaw("C13", "random", b)
}

func TestRandom(t *testing.T) {
	if common.ReplayPath() != "" {
		t.Skip()
	}
	defer common.Verdict(t, rec, "random")
	rapid.Check(t, func(t *rapid.T) { runCase(t, nil) })
}

func TestReplay(t *testing.T) {
	p := common.ReplayPath()
	if p == "" {
		t.Skip()
	}
	var rf replayFile
	if err := common.LoadJSON(p, &rf); err != nil {
		t.Fatalf("HARNESS-ERROR: %v", err)
	}
	defer func() {
		if t.Failed() {
			fmt.Printf("VIOLATION property=C13 replay=%s\n", p)
		}
	}()
	rapid.Check(t, func(t *rapid.T) { runCase(t, rf.Steps) })
}
