package c02

import (
	"encoding/json"
	"fmt"
	"os"
	"path/filepath"
	"strings"
	"sync"
	"testing"
	"time"

	"github.com/echovault/sugardb/verifhook"
	"pgregory.net/rapid"

	"verifharness/common"
	"verifharness/engine"
	"verifharness/evidence"
	"verifharness/findings"
	"verifharness/gen"
	"verifharness/model"
	"verifharness/sut"
)

var rec *evidence.Recorder

var keys = []string{"a", "b", "c"}
var dbs = []int{0, 1, 3, 12}

func TestMain(m *testing.M) {
	rec = evidence.New("C02", "fault_enumeration",
		"rapid-generated write workloads (3–14 operations) against a standalone server with the append-only log enabled: write commands of all five families (all option forms, multi-key writes, failing writes, FLUSHDB/FLUSHALL, absolute and relative expiries), with a REWRITEAOF at a drawn position in some workloads, issued through one TCP connection and through the embedded API, in databases {0,1,3,12} (SELECT / SelectDB), sync policy ∈ {always, no} (+ everysec in the thorough tier). "+
			"After every acknowledged command the digest D_i of all databases is recorded and the data directory is imaged. Faults enumerated per workload: (1) process crash at every command boundary (image i must restore to exactly D_i); (2) process crash at every failpoint (hook H4) inside the logging of the last command — before/after the SELECT marker, before/after the record, before/after fsync — (restore ∈ {D_{n-1}, D_n}); "+
			"(3) a torn final record: the log cut at every byte offset inside the bytes written for the last command (restore = D_{n-1}); (4) power loss under policy always: the log cut back to its length at the last fsync (restore = D_n); under everysec / no: the log cut at 24 (quick) / 120 (thorough) offsets spread over its whole length (restore = D_j for some j); (5) clean shutdown and restart (restore = D_n); (6) second generation: after recovering from a torn record more writes are issued, the server is shut down and restarted again (all of them must be there). "+
			"The virtual clock is advanced between generations in some cases. A case is one workload with all its faults; non-trivial = it logs ≥ 3 writes and contains a crash image or a second generation; distinct = FNV-64 of the workload.",
		"a process crash is modelled by copying the data directory at the crash point (what the kernel holds when the process dies); power loss is modelled at file-length granularity (each file cut back to its last fsync), not at block or directory-entry granularity",
		"digest = TYPE, full read and PEXPIRETIME of keys {a,b,c} in databases {0,1,3,12} through the embedded API")
	common.Main(m, rec)
}

type op struct {
	Actor   string   `json:"actor"` // "emb" | "tcp"
	Select  *int     `json:"select,omitempty"`
	Cmd     []string `json:"cmd,omitempty"`
	Advance int64    `json:"advance,omitempty"`
}

type workload struct {
	Sync string `json:"sync"`
	Ops  []op   `json:"ops"`
	Gen2 []op   `json:"gen2"`
	// AdvanceBetween: virtual milliseconds that pass while the server is down.
	AdvanceBetween int64 `json:"advance_between"`
}

func genCmd(t *rapid.T, m *model.Model) []string {
	switch rapid.IntRange(0, 9).Draw(t, "cmdsrc") {
	case 0, 1, 2, 3:
		return gen.WriterCmd(t, m, keys)
	case 4:
		k := gen.Key(t, keys, "k")
		now := m.NowMs()
		return rapid.SampledFrom([][]string{
			{"SET", k, "v", "PXAT", fmt.Sprint(now + 100000)}, {"PEXPIREAT", k, fmt.Sprint(now + 50000)}, {"EXPIREAT", k, fmt.Sprint(now/1000 + 500)},
			{"SET", k, "w", "EX", "100"}, {"EXPIRE", k, "100"}, {"PEXPIRE", k, "1500"}, {"GETEX", k, "PX", "90000"}, {"PERSIST", k}, {"GETEX", k, "PERSIST"},
		}).Draw(t, "expcmd")
	case 5:
		return rapid.SampledFrom([][]string{{"FLUSHDB"}, {"FLUSHALL"}, {"DEL", "a", "b"}, {"RENAME", "a", "b"}, {"MSET", "a", "1", "b", "2"}}).Draw(t, "multi")
	default:
		c := gen.AnyFamilyCmd(t, m, keys)
		if c[0] == "SPOP" && !findings.IsOpen("F-C02-spop-replayed") {
			return c
		}
		return c
	}
}

func genOps(t *rapid.T, label string, lo, hi int, s *sut.Server) []op {
	n := rapid.IntRange(lo, hi).Draw(t, label+"_n")
	ops := make([]op, 0, n)
	m := model.New(func() int64 { return s.Clock.Now().UnixMilli() })
	for i := 0; i < n; i++ {
		actor := rapid.SampledFrom([]string{"emb", "emb", "tcp"}).Draw(t, "actor")
		if rapid.IntRange(0, 4).Draw(t, "sel") == 0 {
			db := rapid.SampledFrom(dbs).Draw(t, "db")
			ops = append(ops, op{Actor: actor, Select: &db})
			continue
		}
		if rapid.IntRange(0, 7).Draw(t, "adv") == 0 {
			// virtual time passes between commands: a relative expiry that is replayed relatively (at restore
			// time) instead of with the deadline it produced shows up even when the restore happens at once
			ops = append(ops, op{Actor: actor, Advance: rapid.SampledFrom([]int64{1, 1500, 70000}).Draw(t, "advance")})
			continue
		}
		if rapid.IntRange(0, 11).Draw(t, "rewrite") == 0 {
			// a log rewrite in the middle of the workload: what is logged afterwards must still be replayed
			// into the right database and on top of the right state (the rewrite itself is C09's subject)
			ops = append(ops, op{Actor: actor, Cmd: []string{"REWRITEAOF"}})
			continue
		}
		ops = append(ops, op{Actor: actor, Cmd: sanitize(genCmd(t, m))})
	}
	if label == "ops" && rapid.IntRange(0, 4).Draw(t, "expscenario") == 0 {
		// a key expires (nothing looks at it afterwards) and the next command writes it anew because it is gone:
		// the log has to record that the old value was gone, or the replay applies the new write to the old value
		k := gen.Key(t, keys, "ek")
		first := rapid.SampledFrom([][]string{{"SET", k, "old", "PX", "1500"}, {"SET", k, "old", "EX", "1"}}).Draw(t, "efirst")
		then := rapid.SampledFrom([][]string{{"SET", k, "new", "NX"}, {"RPUSH", k, "x", "y"}, {"APPEND", k, "tail"}, {"HSET", k, "f", "v"}, {"SADD", k, "m"}, {"INCR", k}, {"SETRANGE", k, "0", "Z"}, {"LPUSH", k, "e"}, {"ZADD", k, "1", "m"}}).Draw(t, "ethen")
		ops = append(ops, op{Actor: "emb", Cmd: first}, op{Actor: "emb", Advance: 70000}, op{Actor: "emb", Cmd: then})
	}
	// the last command is the one whose logging is dissected: it has to be a write
	for i := len(ops) - 1; i >= 0; i-- {
		if ops[i].Cmd != nil {
			if ops[i].Cmd[0] == "REWRITEAOF" {
				ops = append(ops, op{Actor: "emb", Cmd: []string{"SET", "a", "after-rewrite"}})
			}
			break
		}
	}
	return ops
}

func sanitize(cmd []string) []string {
	out := make([]string, len(cmd))
	for i, a := range cmd {
		out[i] = strings.NewReplacer("\r", "_", "\n", "_").Replace(a)
	}
	return out
}

// point handler state (one case at a time per process)
var (
	pmu      sync.Mutex
	pHandler func(name string)
)

func init() {
	verifhook.SetPointHandler(func(name string) {
		pmu.Lock()
		h := pHandler
		pmu.Unlock()
		if h != nil {
			h(name)
		}
	})
}

func setPoint(h func(string)) { pmu.Lock(); pHandler = h; pmu.Unlock() }

type image struct {
	Dir    string
	Point  string
	After  int // number of acknowledged commands when the image was taken
	During int // index (1-based) of the command in flight, 0 = at a boundary
}

type violation struct{ msg string }

func (c *caseRun) restore(dir string, clockMs int64) (sut.Digest, error) {
	// restore works on a copy: recovery may repair (truncate) the log
	tmp := sut.NewScratchDir("restore")
	defer os.RemoveAll(tmp)
	if err := sut.CopyDir(dir, tmp); err != nil {
		return nil, err
	}
	clk := verifhook.NewVirtualClock(time.UnixMilli(clockMs))
	r, err := sut.New(sut.Opts{DataDir: tmp, RestoreAOF: true, AOFSync: "no", Clock: clk})
	if err != nil {
		return nil, fmt.Errorf("start-up failed: %v", err)
	}
	defer r.Close()
	rec.Add("images_restored", 1)
	return r.TakeDigest(dbs, keys), nil
}

type caseRun struct {
	w      workload
	root   string
	images []image
	D      []sut.Digest
}

func logPath(dir string) string { return filepath.Join(dir, "aof", "log.aof") }

func runCase(t *rapid.T, replay *workload) {
	root := sut.NewScratchDir("c02")
	defer os.RemoveAll(root)
	dataDir := filepath.Join(root, "data")
	_ = os.MkdirAll(dataDir, 0o755)
	port := sut.FreePort()
	var w workload
	if replay != nil {
		w = *replay
	} else {
		syncs := []string{"always", "no", "always", "no"}
		if evidence.Thorough() {
			syncs = append(syncs, "everysec")
		}
		w.Sync = rapid.SampledFrom(syncs).Draw(t, "sync")
	}
	s, err := sut.New(sut.Opts{DataDir: dataDir, AOFSync: w.Sync, Port: port})
	if err != nil {
		t.Fatalf("HARNESS-ERROR: %v", err)
	}
	conn, err := sut.Dial(port)
	if err != nil {
		s.Close()
		t.Fatalf("HARNESS-ERROR: dial: %v", err)
	}
	conn.Do("PING")
	if replay == nil {
		w.Ops = genOps(t, "ops", 3, 14, s)
		w.Gen2 = genOps(t, "gen2", 1, 5, s)
		w.AdvanceBetween = rapid.SampledFrom([]int64{0, 0, 2000, 200000}).Draw(t, "advance_between")
	}
	c := &caseRun{w: w, root: root}
	fail := func(format string, a ...any) {
		msg := fmt.Sprintf(format, a...)
		b, _ := json.MarshalIndent(map[string]any{"property": "C02", "workload": w, "failure": msg}, "", " ")
		p := engine.WriteRaw("C02", "random", b)
		conn.Close()
		s.Close()
		t.Fatalf("violation (replay %s): %s", p, msg)
	}
	snap := func(point string, after, during int) {
		dir := filepath.Join(root, fmt.Sprintf("img-%d", len(c.images)))
		if err := sut.CopyDir(dataDir, dir); err == nil {
			c.images = append(c.images, image{Dir: dir, Point: point, After: after, During: during})
		}
	}
	// the digest commands themselves must not disturb the embedded connection's selected database
	embDB := 0
	digest := func() sut.Digest {
		d := s.TakeDigest(dbs, keys)
		_ = s.Select(embDB)
		return d
	}
	c.D = append(c.D, digest())
	snap("boundary", 0, 0)
	ncmd := 0
	writes := 0
	lastLogBefore := int64(0)
	var syncedLen int64 = -1
	for i, o := range w.Ops {
		if o.Advance != 0 {
			s.Clock.Advance(time.Duration(o.Advance) * time.Millisecond)
			continue
		}
		if o.Select != nil {
			if o.Actor == "tcp" {
				conn.Do("SELECT", fmt.Sprint(*o.Select))
			} else {
				_ = s.Select(*o.Select)
				embDB = *o.Select
			}
			continue
		}
		last := true
		for _, later := range w.Ops[i+1:] {
			if later.Cmd != nil {
				last = false
			}
		}
		lastLogBefore = sut.FileSize(logPath(dataDir))
		if last {
			// enumerate the failpoints inside the logging of the last command
			setPoint(func(name string) {
				if name == "aof.synced" {
					syncedLen = sut.FileSize(logPath(dataDir))
					return
				}
				if strings.HasPrefix(name, "aof.write") || strings.HasPrefix(name, "cmd.") {
					snap(name, ncmd, ncmd+1)
				}
			})
		} else {
			setPoint(func(name string) {
				if name == "aof.synced" {
					syncedLen = sut.FileSize(logPath(dataDir))
				}
			})
		}
		var rep sut.Reply
		if o.Actor == "tcp" {
			rep = conn.Do(o.Cmd...)
		} else {
			rep = s.Do(o.Cmd...)
		}
		setPoint(nil)
		if rep.Panic != "" {
			fail("command %q panicked: %s", o.Cmd, strings.SplitN(rep.Panic, "\n", 2)[0])
		}
		if !rep.Val.IsErr() {
			writes++
		}
		ncmd++
		c.D = append(c.D, digest())
		snap("boundary", ncmd, 0)
	}
	finalLen := sut.FileSize(logPath(dataDir))
	nowMs := s.Clock.Now().UnixMilli()
	conn.Close()
	s.Close()
	time.Sleep(time.Millisecond)
	matched := -1 // index of the recorded digest the last check() found the restored dataset equal to
	check := func(what string, dir string, clockMs int64, allowed ...int) sut.Digest {
		got, err := c.restore(dir, clockMs)
		if err != nil {
			fail("%s: %v", what, err)
		}
		var diffs []string
		for _, idx := range allowed {
			// what was recorded then, minus the keys whose deadline has passed by the time of the restore
			want := sut.Digest{}
			for k, ks := range c.D[idx] {
				if ks.Deadline > 0 && ks.Deadline < clockMs {
					continue
				}
				want[k] = ks
			}
			d := got.Diff(want)
			if d == "" {
				matched = idx
				return got
			}
			diffs = append(diffs, fmt.Sprintf("vs D_%d: %s", idx, d))
		}
		fail("%s: restored dataset %s is none of the allowed prefixes (%s)", what, got.Canon(), strings.Join(diffs, " | "))
		return nil
	}
	// (5) clean shutdown
	check("clean shutdown and restart", dataDir, nowMs, ncmd)
	rec.Add("crash_points", 1)
	// (1)+(2) images
	for _, im := range c.images {
		if im.During == 0 {
			check(fmt.Sprintf("process crash after command %d (boundary)", im.After), im.Dir, nowMs, im.After)
		} else {
			check(fmt.Sprintf("process crash at failpoint %s inside command %d", im.Point, im.During), im.Dir, nowMs, im.After, im.After+1)
		}
		rec.Add("crash_points", 1)
	}
	// (3) torn final record
	var tornDir string
	tornBase := -1
	if finalLen > lastLogBefore && ncmd > 0 {
		step := int64(1)
		if finalLen-lastLogBefore > 400 {
			step = (finalLen - lastLogBefore) / 200
		}
		for cut := lastLogBefore + 1; cut < finalLen; cut += step {
			dir := filepath.Join(root, "torn")
			_ = os.RemoveAll(dir)
			if err := sut.CopyDir(dataDir, dir); err != nil {
				t.Fatalf("HARNESS-ERROR: %v", err)
			}
			if err := os.Truncate(logPath(dir), cut); err != nil {
				t.Fatalf("HARNESS-ERROR: %v", err)
			}
			// (The bytes after lastLogBefore are not always one record: the removal of a key found expired — by the
			// command or by the reads that recorded D_n — is logged as a record of its own, before or after the
			// command's record. A cut can therefore leave the command's own record complete.)
			check(fmt.Sprintf("torn final record (log cut at byte %d of %d, last command starts at %d)", cut, finalLen, lastLogBefore), dir, nowMs, ncmd-1, ncmd)
			rec.Add("crash_points", 1)
			rec.Add("torn_offsets", 1)
			tornDir, tornBase = dir, matched
		}
	}
	// (4) power loss under always: everything acknowledged has been fsynced
	if w.Sync == "always" && syncedLen >= 0 && writes > 0 {
		dir := filepath.Join(root, "powerloss")
		if err := sut.CopyDir(dataDir, dir); err == nil {
			_ = os.Truncate(logPath(dir), syncedLen)
			check(fmt.Sprintf("power loss under 'always' (log cut back to its last fsync, %d of %d bytes)", syncedLen, finalLen), dir, nowMs, ncmd)
			rec.Add("crash_points", 1)
		}
	}
	// (4b) power loss under 'everysec' / 'no': what was written after the last fsync may be gone from any byte
	// on, so the log is cut at offsets spread over its whole length; whatever is left must restore to the
	// dataset after some prefix of the commands (any prefix: nothing is promised to be durable yet)
	if w.Sync != "always" && finalLen > 0 {
		all := make([]int, len(c.D))
		for i := range all {
			all[i] = i
		}
		ncuts := int64(24)
		if evidence.Thorough() {
			ncuts = 120
		}
		step := max(finalLen/ncuts, 1)
		for cut := int64(0); cut < finalLen; cut += step {
			dir := filepath.Join(root, "powerloss")
			_ = os.RemoveAll(dir)
			if err := sut.CopyDir(dataDir, dir); err != nil {
				t.Fatalf("HARNESS-ERROR: %v", err)
			}
			if err := os.Truncate(logPath(dir), cut); err != nil {
				t.Fatalf("HARNESS-ERROR: %v", err)
			}
			check(fmt.Sprintf("power loss under '%s' (log cut at byte %d of %d)", w.Sync, cut, finalLen), dir, nowMs, all...)
			rec.Add("crash_points", 1)
			rec.Add("power_loss_cuts", 1)
		}
	}
	// (6) second generation on the recovered (torn, if any) directory
	g2dir := dataDir
	base := ncmd
	if tornDir != "" && tornBase >= 0 {
		g2dir = tornDir
		base = tornBase
	}
	clk := verifhook.NewVirtualClock(time.UnixMilli(nowMs + w.AdvanceBetween))
	expectAfterRestart := c.D[base]
	r, err := sut.New(sut.Opts{DataDir: g2dir, RestoreAOF: true, AOFSync: w.Sync, Clock: clk})
	if err != nil {
		fail("second generation: start-up failed: %v", err)
	}
	got := r.TakeDigest(dbs, keys)
	// keys whose deadline passed while the server was down are gone; everything else is as recorded
	want := sut.Digest{}
	for k, ks := range expectAfterRestart {
		if ks.Deadline > 0 && ks.Deadline < clk.Now().UnixMilli() {
			continue
		}
		want[k] = ks
	}
	if d := got.Diff(want); d != "" {
		if id := explainRestart(w, d); id != "" {
			rec.Excluded(id)
		} else {
			r.Close()
			fail("restart after %d ms of down time: %s (restored %s, expected %s)", w.AdvanceBetween, d, got.Canon(), want.Canon())
		}
	}
	emb2 := 0
	for _, o := range w.Gen2 {
		if o.Advance != 0 {
			clk.Advance(time.Duration(o.Advance) * time.Millisecond)
			continue
		}
		if o.Select != nil {
			_ = r.Select(*o.Select)
			emb2 = *o.Select
			continue
		}
		_ = r.Select(emb2)
		r.Do(o.Cmd...)
	}
	e2 := r.TakeDigest(dbs, keys)
	now2 := clk.Now().UnixMilli()
	r.Close()
	time.Sleep(time.Millisecond)
	got2, err := c.restore(g2dir, now2)
	if err != nil {
		fail("second generation restart: %v", err)
	}
	if d := got2.Diff(e2); d != "" {
		if id := explainRestart(w, d); id != "" {
			rec.Excluded(id)
		} else {
			fail("writes acknowledged after recovery did not survive the next restart: %s (restored %s, expected %s)", d, got2.Canon(), e2.Canon())
		}
	}
	rec.Add("server_restarts", 3)
	b, _ := json.Marshal(w)
	sample := map[string]any{"sync": w.Sync, "ops": renderOps(w.Ops), "gen2": renderOps(w.Gen2), "advance_between_ms": w.AdvanceBetween, "images": len(c.images)}
	rec.Case(string(b), writes >= 3, sample)
}

// explainRestart attributes a restart deviation to an open finding (random pops and relative expiries
// are logged verbatim and re-evaluated at replay time).
func explainRestart(w workload, diff string) string {
	has := func(names ...string) bool {
		for _, o := range append(append([]op{}, w.Ops...), w.Gen2...) {
			if o.Cmd == nil {
				continue
			}
			for _, n := range names {
				if strings.EqualFold(o.Cmd[0], n) {
					return true
				}
			}
		}
		return false
	}
	if findings.IsOpen("F-C02-spop-replayed") && has("SPOP") && strings.Contains(diff, "set") {
		return "F-C02-spop-replayed"
	}
	if findings.IsOpen("F-C02-relative-expiry-replayed") && w.AdvanceBetween > 0 && (strings.Contains(diff, "(deadline)") || strings.Contains(diff, "(liveness)")) {
		rel := false
		for _, o := range append(append([]op{}, w.Ops...), w.Gen2...) {
			if o.Cmd == nil {
				continue
			}
			switch strings.ToUpper(o.Cmd[0]) {
			case "EXPIRE", "PEXPIRE":
				rel = true
			case "SET", "GETEX":
				for _, a := range o.Cmd {
					if u := strings.ToUpper(a); u == "EX" || u == "PX" {
						rel = true
					}
				}
			}
		}
		if rel {
			return "F-C02-relative-expiry-replayed"
		}
	}
	return ""
}

func renderOps(ops []op) []string {
	out := []string{}
	for _, o := range ops {
		if o.Advance != 0 {
			out = append(out, fmt.Sprintf("advance %d ms", o.Advance))
		} else if o.Select != nil {
			out = append(out, fmt.Sprintf("%s select %d", o.Actor, *o.Select))
		} else {
			out = append(out, fmt.Sprintf("%s %q", o.Actor, o.Cmd))
		}
	}
	return out
}

func TestRandom(t *testing.T) {
	if common.ReplayPath() != "" {
		t.Skip()
	}
	defer common.Verdict(t, rec, "random")
	rapid.Check(t, func(t *rapid.T) { runCase(t, nil) })
}

func TestReplay(t *testing.T) {
	p := common.ReplayPath()
	if p == "" {
		t.Skip()
	}
	var rf struct {
		Workload workload `json:"workload"`
	}
	if err := common.LoadJSON(p, &rf); err != nil {
		t.Fatalf("HARNESS-ERROR: %v", err)
	}
	defer func() {
		if t.Failed() {
			fmt.Printf("VIOLATION property=C02 replay=%s\n", p)
		}
	}()
	rapid.Check(t, func(t *rapid.T) { runCase(t, &rf.Workload) })
}
