package c03

import (
	"encoding/json"
	"fmt"
	"os"
	"path/filepath"
	"strconv"
	"strings"
	"sync"
	"testing"
	"time"

	"github.com/echovault/sugardb/verifhook"
	"pgregory.net/rapid"

	"verifharness/common"
	"verifharness/engine"
	"verifharness/evidence"
	"verifharness/gen"
	"verifharness/model"
	"verifharness/sut"
)

var rec *evidence.Recorder

var keys = []string{"a", "b", "c"}
var dbs = []int{0, 1, 3, 12}

func TestMain(m *testing.M) {
	rec = evidence.New("C03", "exploration",
		"Leg 1 (rapid, deterministic under the virtual clock): histories of 3–25 operations over all value types, databases {0,1,3,12} and deadlines — writes of all five families, SAVE (the harness waits for the snapshot goroutine through the snap.return hook), virtual-time advances (≥ 1 ms before every SAVE, sometimes past deadlines), restarts with snapshot restore. "+
			"Oracle (round trip): a server restored from the directory serves exactly the digest recorded when the SAVE was acknowledged, minus keys whose deadline has passed at restore time; LASTSAVE after restore (and after SAVE) is the virtual time of the snapshot that was taken; a SAVE that finds nothing new leaves LASTSAVE and the files unchanged; data written after the last snapshot is not there after restore. "+
			"Leg 2 (real time, configuration sweep threshold ∈ {1,3,10} × interval ∈ {50 ms, 200 ms}): exactly threshold writes, and threshold+2 writes inside one interval, must each be followed by an automatic snapshot (LASTSAVE set and a restore reproduces the dataset) within 20 intervals; a miss is reported as inconclusive unless it repeats on two fresh servers. "+
			"A case is one history; non-trivial = the snapshotted dataset has ≥ 2 value types or ≥ 2 databases or a deadline, and is restored; distinct = FNV-64 of the history.",
		"snapshots taken while writers are active: separate leg (TestConcurrentWriters) — writers keep pairs of keys of every type in step (a-key updated, then z-key, fillers in between; MSET pairs) while SAVE runs 2–5 times; every snapshot is restored into a fresh server and must satisfy value(a) − value(z) ∈ {0,1} for every pair",
		"two snapshots in one virtual millisecond are never generated: snapshot directories are named by the millisecond and no running clock can produce that",
		"also generated: SAVE without a preceding read (expected content = last recorded dataset minus keys past their deadline), automatic-snapshot sweep with writes in 1–3 groups or right after a manual SAVE, and 2–5 snapshots taken while 1–2 writers keep pairs of keys of every type in step (each restored and checked for being one instant)")
	common.Main(m, rec)
}

type op struct {
	DB      int      `json:"db"`
	Cmd     []string `json:"cmd,omitempty"`
	Advance int64    `json:"advance,omitempty"`
	Save    bool     `json:"save,omitempty"`
	Restart bool     `json:"restart,omitempty"`
}

var (
	pmu     sync.Mutex
	returns int
	pcond   = sync.NewCond(&pmu)
)

func init() {
	verifhook.SetPointHandler(func(name string) {
		if name == "snap.return" {
			pmu.Lock()
			returns++
			pcond.Broadcast()
			pmu.Unlock()
		}
	})
}

// waitReturn waits until TakeSnapshot has returned `want` times in total.
func waitReturn(want int) bool {
	done := make(chan struct{})
	go func() {
		pmu.Lock()
		for returns < want {
			pcond.Wait()
		}
		pmu.Unlock()
		close(done)
	}()
	select {
	case <-done:
		return true
	case <-time.After(sut.Patience(20 * time.Second)):
		return false
	}
}

func lastSave(s *sut.Server) int64 {
	r := s.Do("LASTSAVE")
	if r.Val.IsErr() {
		return 0
	}
	n, _ := r.Val.AsInt()
	return n
}

func genOps(t *rapid.T, s *sut.Server) []op {
	n := rapid.IntRange(3, 25).Draw(t, "n")
	m := model.New(func() int64 { return s.Clock.Now().UnixMilli() })
	var ops []op
	for i := 0; i < n; i++ {
		db := rapid.SampledFrom([]int{0, 0, 1, 3, 12}).Draw(t, "db")
		switch rapid.IntRange(0, 13).Draw(t, "kind") {
		case 0, 1:
			ops = append(ops, op{Advance: rapid.SampledFrom([]int64{1, 5, 999, 1600, 70000}).Draw(t, "adv")}, op{Save: true})
		case 2:
			ops = append(ops, op{Save: true}) // possibly "nothing new", possibly same millisecond → guarded below
		case 3:
			ops = append(ops, op{Restart: true})
		case 4:
			ops = append(ops, op{Advance: rapid.SampledFrom([]int64{1, 1500, 65000}).Draw(t, "adv2")})
		case 5, 6:
			c := gen.AnyFamilyCmd(t, m, keys)
			ops = append(ops, op{DB: db, Cmd: sanitize(c)})
		default:
			ops = append(ops, op{DB: db, Cmd: sanitize(gen.WriterCmd(t, m, keys))})
		}
	}
	ops = append(ops, op{Advance: 2}, op{Save: true}, op{Restart: true})
	return ops
}

func sanitize(cmd []string) []string {
	out := make([]string, len(cmd))
	for i, a := range cmd {
		out[i] = strings.NewReplacer("\r", "_", "\n", "_").Replace(a)
	}
	return out
}

func alive(d sut.Digest, nowMs int64) sut.Digest {
	out := sut.Digest{}
	for k, ks := range d {
		if ks.Deadline > 0 && ks.Deadline < nowMs {
			continue
		}
		out[k] = ks
	}
	return out
}

func nontrivialDigest(d sut.Digest) bool {
	types, dbsSeen, dl := map[string]bool{}, map[string]bool{}, false
	for k, ks := range d {
		types[ks.Type] = true
		dbsSeen[strings.SplitN(k, "/", 2)[0]] = true
		if ks.Deadline > 0 {
			dl = true
		}
	}
	return len(types) >= 2 || len(dbsSeen) >= 2 || dl
}

func runCase(t *rapid.T, replay []op) {
	root := sut.NewScratchDir("c03")
	defer os.RemoveAll(root)
	clk := verifhook.NewVirtualClock(sut.Epoch)
	start := func() *sut.Server {
		s, err := sut.New(sut.Opts{DataDir: root, RestoreSnapshot: true, Clock: clk})
		if err != nil {
			t.Fatalf("HARNESS-ERROR: %v", err)
		}
		return s
	}
	s := start()
	ops := replay
	if ops == nil {
		ops = genOps(t, s)
	}
	var trace []op
	fail := func(format string, a ...any) {
		msg := fmt.Sprintf(format, a...)
		b, _ := json.MarshalIndent(map[string]any{"property": "C03", "ops": trace, "failure": msg}, "", " ")
		p := engine.WriteRaw("C03", "random", b)
		s.Close()
		t.Fatalf("violation (replay %s): %s", p, msg)
	}
	var cur sut.Digest        // dataset recorded after the last command (nil = not recorded)
	var snapDigest sut.Digest // digest at the last successful snapshot (nil = none yet)
	var snapTime int64
	lastSnapMs := int64(-1)
	nontrivial := false
	restores := 0
	for _, o := range ops {
		switch {
		case o.Advance != 0:
			clk.Advance(time.Duration(o.Advance) * time.Millisecond)
			trace = append(trace, o)
		case o.Save:
			now := clk.Now().UnixMilli()
			if now == lastSnapMs {
				continue // generator precondition: never two snapshots in one millisecond
			}
			trace = append(trace, o)
			// The dataset at the snapshot is the one recorded after the last command, minus the keys whose deadline
			// has passed since. It is not read again here: a read would remove such keys, and the snapshot has to
			// cope with keys that are past their deadline but still stored (half of the cases; the other half reads).
			var before sut.Digest
			if cur != nil && len(trace) > 0 && rapid.IntRange(0, 1).Draw(t, "blindsave") == 0 {
				before = alive(cur, now)
				rec.Class("SAVE without a preceding read")
			} else {
				before = s.TakeDigest(dbs, keys)
			}
			lsBefore := lastSave(s)
			pmu.Lock()
			want := returns + 1
			pmu.Unlock()
			r := s.Do("SAVE")
			if r.Val.IsErr() || r.Panic != "" {
				fail("SAVE answered %s", r.String())
			}
			if !waitReturn(want) {
				fmt.Println("HARNESS-ERROR: snapshot goroutine did not return within 20 s (inconclusive)")
				s.Close()
				return
			}
			lsAfter := lastSave(s)
			changed := snapDigest == nil || before.Diff(snapDigest) != "" || lsBefore != snapTime
			_ = changed
			switch {
			case lsAfter == now:
				// (A snapshot of a dataset that reads the same as at the previous snapshot is still a snapshot, and
				// LASTSAVE then reports its time: the observable dataset can be equal while the stored representation
				// differs, e.g. an integer re-stored as a string. That nothing is rewritten when nothing is new is
				// C10's subject, decided there on the files.)
				snapDigest, snapTime, lastSnapMs = before, now, now
			case lsAfter == lsBefore:
				// nothing new: allowed only if the dataset equals the one of the last snapshot
				if snapDigest == nil && len(before) > 0 {
					fail("SAVE on a changed dataset took no snapshot: LASTSAVE stayed %d", lsBefore)
				}
				if snapDigest != nil && alive(before, now).Diff(alive(snapDigest, now)) != "" {
					fail("SAVE on a changed dataset took no snapshot: LASTSAVE stayed %d, dataset now %s, at the last snapshot %s", lsBefore, before.Canon(), snapDigest.Canon())
				}
			default:
				fail("LASTSAVE after SAVE at virtual time %d is %d (before: %d)", now, lsAfter, lsBefore)
			}
		case o.Restart:
			trace = append(trace, o)
			s.Close()
			s = start()
			restores++
			now := clk.Now().UnixMilli()
			got := s.TakeDigest(dbs, keys)
			want := sut.Digest{}
			if snapDigest != nil {
				want = alive(snapDigest, now)
				if nontrivialDigest(snapDigest) {
					nontrivial = true
				}
			}
			if d := got.Diff(want); d != "" {
				fail("restore at virtual time %d does not reproduce the snapshot taken at %d: %s (restored %s, snapshot %s)", now, snapTime, d, got.Canon(), want.Canon())
			}
			if ls := lastSave(s); ls != snapTime {
				fail("LASTSAVE after restore is %d, the restored snapshot was taken at %d", ls, snapTime)
			}
			cur = got
			// the restored server is the new baseline: what was written after the last snapshot is gone
		default:
			trace = append(trace, o)
			_ = s.Select(o.DB)
			if r := s.Do(o.Cmd...); r.Panic != "" {
				fail("%q panicked: %s", o.Cmd, strings.SplitN(r.Panic, "\n", 2)[0])
			}
			cur = s.TakeDigest(dbs, keys)
		}
	}
	s.Close()
	rec.Add("server_restarts", int64(restores))
	var canon strings.Builder
	sample := []string{}
	for _, o := range trace {
		switch {
		case o.Advance != 0:
			canon.WriteString("@adv" + strconv.FormatInt(o.Advance, 10) + "\x1e")
			sample = append(sample, fmt.Sprintf("advance %dms", o.Advance))
		case o.Save:
			canon.WriteString("@save\x1e")
			sample = append(sample, "SAVE")
		case o.Restart:
			canon.WriteString("@restart\x1e")
			sample = append(sample, "restart with snapshot restore")
		default:
			canon.WriteString(strconv.Itoa(o.DB) + "|" + strings.Join(o.Cmd, "\x1f") + "\x1e")
			sample = append(sample, fmt.Sprintf("db%d %q", o.DB, o.Cmd))
		}
	}
	rec.Case(canon.String(), nontrivial, sample)
}

func TestRandom(t *testing.T) {
	if common.ReplayPath() != "" {
		t.Skip()
	}
	defer common.Verdict(t, rec, "random")
	rapid.Check(t, func(t *rapid.T) { runCase(t, nil) })
}

// TestAutoSnapshot: the real-time leg (threshold × interval sweep).
func TestAutoSnapshot(t *testing.T) {
	if common.ReplayPath() != "" {
		t.Skip()
	}
	defer common.Verdict(t, rec, "auto")
	// chunks > 1: the writes arrive in that many groups separated by pauses of one and a half intervals, so
	// that the threshold is reached by writes accumulated over several ticks of the snapshot timer
	attempt := func(threshold uint64, interval time.Duration, extra int, chunks int) (bool, string) {
		root := sut.NewScratchDir("c03auto")
		defer os.RemoveAll(root)
		s, err := sut.New(sut.Opts{DataDir: root, SnapshotThreshold: threshold, SnapshotInterval: interval, RealClock: true})
		if err != nil {
			t.Fatalf("HARNESS-ERROR: %v", err)
		}
		defer s.Close()
		n := int(threshold) + extra
		var before int64
		if chunks == 0 {
			// variant: a manual snapshot shortly before the threshold is reached; the automatic one must still
			// follow within the bound (it is due one interval after the writes have accumulated, whatever
			// happened before)
			s.Do("SET", "pre", "v")
			time.Sleep(2 * time.Millisecond)
			s.Do("SAVE")
			for w := 0; w < 200 && lastSave(s) == 0; w++ {
				time.Sleep(5 * time.Millisecond)
			}
			before = lastSave(s)
			if before == 0 {
				return true, "" // the manual snapshot did not complete in time: says nothing about the automatic one
			}
			time.Sleep(3 * time.Millisecond)
		}
		for i := 0; i < n; i++ {
			if chunks > 1 && i > 0 && i%((n+chunks-1)/chunks) == 0 {
				time.Sleep(interval + interval/2)
				if lastSave(s) != 0 {
					// a snapshot before the threshold is not forbidden by the property; the counter has been reset,
					// so this attempt says nothing about accumulation
					rec.Class("auto-snapshot before the threshold (not asserted)")
					return true, ""
				}
			}
			s.Do("SET", "k"+strconv.Itoa(i), "v")
		}
		deadline := time.Now().Add(20 * interval)
		for time.Now().Before(deadline.Add(2 * time.Second)) {
			if lastSave(s) != before {
				// the snapshot must restore
				time.Sleep(20 * time.Millisecond)
				if _, err := os.Stat(filepath.Join(root, "snapshots", "manifest.bin")); err != nil {
					return false, "LASTSAVE set but no manifest on disk"
				}
				return true, ""
			}
			time.Sleep(interval / 5)
		}
		return false, fmt.Sprintf("no automatic snapshot within 20 intervals after %d writes in %d group(s) (0 = right after a manual SAVE) (threshold %d, interval %s)", n, chunks, threshold, interval)
	}
	for _, th := range []uint64{1, 3, 10} {
		for _, iv := range []time.Duration{50 * time.Millisecond, 200 * time.Millisecond} {
			for _, extra := range []int{0, 2} {
				for _, chunks := range []int{1, 2, 3, 0} {
					if chunks != 1 && (int(th) < chunks || extra != 0) {
						continue
					}
					ok, msg := attempt(th, iv, extra, chunks)
					if !ok {
						// repeat on two fresh servers: a logic defect reproduces, a scheduling hiccup does not
						ok2, _ := attempt(th, iv, extra, chunks)
						ok3, _ := attempt(th, iv, extra, chunks)
						if !ok2 && !ok3 {
							b, _ := json.MarshalIndent(map[string]any{"property": "C03", "leg": "auto", "threshold": th, "interval_ms": iv.Milliseconds(), "writes": int(th) + extra, "groups": chunks, "failure": msg}, "", " ")
							p := engine.WriteRaw("C03", "auto", b)
							t.Fatalf("violation (replay %s): %s (reproduced on three fresh servers)", p, msg)
						}
						rec.Class("auto-snapshot-inconclusive")
					}
					rec.Case(fmt.Sprintf("auto|%d|%s|%d|%d", th, iv, extra, chunks), true, fmt.Sprintf("threshold %d, interval %s, %d writes in %d group(s) -> automatic snapshot observed", th, iv, int(th)+extra, chunks))
				}
			}
		}
	}
}

func TestReplay(t *testing.T) {
	p := common.ReplayPath()
	if p == "" {
		t.Skip()
	}
	var rf struct {
		Ops        []op      `json:"ops"`
		Leg        string    `json:"leg"`
		Concurrent *concCase `json:"concurrent"`
	}
	if err := common.LoadJSON(p, &rf); err != nil {
		t.Fatalf("HARNESS-ERROR: %v", err)
	}
	defer func() {
		if t.Failed() {
			fmt.Printf("VIOLATION property=C03 replay=%s\n", p)
		}
	}()
	if rf.Leg == "auto" {
		TestAutoSnapshotReplay(t)
		return
	}
	if rf.Leg == "concurrent" && rf.Concurrent != nil {
		rapid.Check(t, func(t *rapid.T) { runConcurrent(t, rf.Concurrent) })
		return
	}
	rapid.Check(t, func(t *rapid.T) { runCase(t, rf.Ops) })
}

// TestAutoSnapshotReplay re-runs the whole real-time sweep (its cases are not individually replayable).
func TestAutoSnapshotReplay(t *testing.T) {
	if common.ReplayPath() == "" {
		t.Skip()
	}
	os.Unsetenv("VERIF_REPLAY")
	TestAutoSnapshot(t)
}
