package c03

import (
	"encoding/json"
	"fmt"
	"os"
	"path/filepath"
	"strconv"
	"strings"
	"sync"
	"testing"
	"time"

	"pgregory.net/rapid"

	"verifharness/common"
	"verifharness/engine"
	"verifharness/sut"
)

// ---- snapshots taken while writers are active ----
//
// A writer keeps pairs of keys in step, one key whose name sorts before a block of filler keys and one that sorts
// after it: for every value type it updates the "a-…" key and then the "z-…" key with the same counter, and it
// writes two string keys with one MSET. A dataset "as of one instant" therefore satisfies, for every pair,
// value(a) − value(z) ∈ {0, 1} (and the MSET pair is equal). While the writer runs, SAVE is issued several times;
// every snapshot is copied and later restored into a fresh server, where the pairs are compared. A snapshot that
// was encoded from live values (instead of from a copy taken at one instant) mixes states of different instants.

type concCase struct {
	Fillers   int `json:"fillers"`    // number of filler keys between the two halves of a pair
	FillerLen int `json:"filler_len"` // bytes per filler value
	Snapshots int `json:"snapshots"`
	Writers   int `json:"writers"`
}

func runConcurrent(t *rapid.T, replay *concCase) {
	var cc concCase
	if replay != nil {
		cc = *replay
	} else {
		cc.Fillers = rapid.SampledFrom([]int{400, 2000, 6000}).Draw(t, "fillers")
		cc.FillerLen = rapid.SampledFrom([]int{100, 500}).Draw(t, "filler_len")
		cc.Snapshots = rapid.IntRange(3, 6).Draw(t, "snapshots")
		cc.Writers = rapid.IntRange(1, 3).Draw(t, "writers")
	}
	root := sut.NewScratchDir("c03conc")
	defer os.RemoveAll(root)
	dataDir := filepath.Join(root, "data")
	s, err := sut.New(sut.Opts{DataDir: dataDir})
	if err != nil {
		t.Fatalf("HARNESS-ERROR: %v", err)
	}
	closed := false
	defer func() {
		if !closed {
			s.Close()
		}
	}()
	fail := func(format string, a ...any) {
		msg := fmt.Sprintf(format, a...)
		b, _ := json.MarshalIndent(map[string]any{"property": "C03", "leg": "concurrent", "concurrent": cc, "failure": msg}, "", " ")
		p := engine.WriteRaw("C03", "concurrent", b)
		t.Fatalf("violation (replay %s): %s", p, msg)
	}
	pad := strings.Repeat("f", cc.FillerLen)
	for i := 0; i < cc.Fillers; i++ {
		s.Do("SET", fmt.Sprintf("m%05d", i), pad)
	}
	// the pairs (writer w owns the keys with suffix w)
	for w := 0; w < cc.Writers; w++ {
		sf := strconv.Itoa(w)
		s.Do("RPUSH", "a-list"+sf, "0", "tail")
		s.Do("RPUSH", "z-list"+sf, "0", "tail")
		s.Do("HSET", "a-hash"+sf, "n", "0")
		s.Do("HSET", "z-hash"+sf, "n", "0")
		s.Do("ZADD", "a-zset"+sf, "0", "m")
		s.Do("ZADD", "z-zset"+sf, "0", "m")
		s.Do("MSET", "a-str"+sf, "0", "z-str"+sf, "0")
	}
	stop := make(chan struct{})
	var wg sync.WaitGroup
	for w := 0; w < cc.Writers; w++ {
		wg.Add(1)
		go func(w int) {
			defer wg.Done()
			sf := strconv.Itoa(w)
			for i := 1; ; i++ {
				select {
				case <-stop:
					return
				default:
				}
				v := strconv.Itoa(i)
				s.Do("LSET", "a-list"+sf, "0", v)
				s.Do("LSET", "z-list"+sf, "0", v)
				s.Do("HINCRBY", "a-hash"+sf, "n", "1")
				s.Do("HINCRBY", "z-hash"+sf, "n", "1")
				s.Do("SADD", "a-set"+sf, "e"+v)
				s.Do("SADD", "z-set"+sf, "e"+v)
				s.Do("ZINCRBY", "a-zset"+sf, "1", "m")
				s.Do("ZINCRBY", "z-zset"+sf, "1", "m")
				s.Do("MSET", "a-str"+sf, v, "z-str"+sf, v)
			}
		}(w)
	}
	var images []string
	pmu.Lock()
	base := returns
	pmu.Unlock()
	for n := 1; n <= cc.Snapshots; n++ {
		time.Sleep(3 * time.Millisecond)
		s.Clock.Advance(time.Second) // snapshot directories are named by the (virtual) millisecond
		r := s.Do("SAVE")
		if r.Val.IsErr() || r.Panic != "" {
			close(stop)
			wg.Wait()
			fail("SAVE while writers are active answered %s", r.String())
		}
		if !waitReturn(base + n) {
			close(stop)
			wg.Wait()
			fmt.Println("HARNESS-ERROR: snapshot goroutine did not return in time (inconclusive)")
			return
		}
		dir := filepath.Join(root, fmt.Sprintf("img-%d", n))
		if err := sut.CopyDir(dataDir, dir); err == nil {
			images = append(images, dir)
		}
	}
	close(stop)
	wg.Wait()
	nowMs := s.Clock.Now().UnixMilli()
	s.Close()
	closed = true
	for n, dir := range images {
		clk := sut.NewClockAt(nowMs)
		r, err := sut.New(sut.Opts{DataDir: dir, RestoreSnapshot: true, Clock: clk})
		if err != nil {
			fail("snapshot %d taken while writers were active does not restore: %v", n+1, err)
		}
		num := func(cmd ...string) (int64, bool) {
			rep := r.Do(cmd...)
			if l, ok := rep.Val.List(); ok && len(l) == 1 {
				rep.Val = l[0] // HGET answers with an array of one value
			}
			if rep.Val.IsNil() || rep.Val.IsErr() {
				return 0, false
			}
			if txt, ok := rep.Val.Text(); ok {
				f, err := strconv.ParseFloat(txt, 64)
				return int64(f), err == nil
			}
			v, ok := rep.Val.AsInt()
			return v, ok
		}
		var problems []string
		for w := 0; w < cc.Writers; w++ {
			sf := strconv.Itoa(w)
			for _, pr := range []struct {
				what string
				a, z []string
			}{
				{"list head (LSET)", []string{"LINDEX", "a-list" + sf, "0"}, []string{"LINDEX", "z-list" + sf, "0"}},
				{"hash field (HINCRBY)", []string{"HGET", "a-hash" + sf, "n"}, []string{"HGET", "z-hash" + sf, "n"}},
				{"set cardinality (SADD)", []string{"SCARD", "a-set" + sf}, []string{"SCARD", "z-set" + sf}},
				{"sorted-set score (ZINCRBY)", []string{"ZSCORE", "a-zset" + sf, "m"}, []string{"ZSCORE", "z-zset" + sf, "m"}},
			} {
				a, okA := num(pr.a...)
				z, okZ := num(pr.z...)
				if !okA && !okZ {
					if !strings.HasPrefix(pr.what, "set") {
						problems = append(problems, fmt.Sprintf("%s of writer %d: neither key can be read after the restore", pr.what, w))
					}
					continue // (sets: neither key written before the first SADD)
				}
				if d := a - z; d != 0 && d != 1 {
					problems = append(problems, fmt.Sprintf("%s of writer %d: %d in the a-key, %d in the z-key", pr.what, w, a, z))
				}
			}
			a, _ := num("GET", "a-str"+sf)
			z, _ := num("GET", "z-str"+sf)
			if a != z {
				problems = append(problems, fmt.Sprintf("MSET pair of writer %d: %d and %d", w, a, z))
			}
		}
		r.Close()
		if len(problems) > 0 {
			fail("snapshot %d of %d, taken while %d writer(s) were active, is not the dataset of one instant: %s", n+1, len(images), cc.Writers, strings.Join(problems, "; "))
		}
		rec.Add("concurrent_snapshots_checked", 1)
	}
	b, _ := json.Marshal(cc)
	rec.Case("concurrent:"+string(b), len(images) >= 2, map[string]any{"leg": "snapshots under concurrent writers", "case": cc, "snapshots_restored": len(images)})
}

func TestConcurrentWriters(t *testing.T) {
	if common.ReplayPath() != "" {
		t.Skip()
	}
	defer common.Verdict(t, rec, "concurrent")
	rapid.Check(t, func(t *rapid.T) { runConcurrent(t, nil) })
}
