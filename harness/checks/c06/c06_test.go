package c06

import (
	"encoding/json"
	"fmt"
	"os"
	"path/filepath"
	"sort"
	"strings"
	"testing"
	"time"

	"pgregory.net/rapid"

	"verifharness/acl"
	"verifharness/common"
	"verifharness/engine"
	"verifharness/evidence"
	"verifharness/gen"
	"verifharness/model"
	"verifharness/resp"
	"verifharness/sut"
)

var rec *evidence.Recorder

var keys = []string{"a1", "a2", "b1", "k:1"}
var dbs = []int{0}

func TestMain(m *testing.M) {
	rec = evidence.New("C06", "exploration",
		"rapid-generated cases against an in-process server that requires authentication, with an identical twin server (no authentication) receiving the same data history: a rule set for user u drawn from the documented grammar (on/off, password, allCategories / +@c / -@c, allCommands / +cmd / -cmd / +cmd|sub, %RW~g %R~g %W~g ~g allKeys nokeys resetkeys with globs over the key alphabet, +&g -&g allChannels resetchannels), applied by an admin connection with ACL SETUSER and read back with ACL GETUSER; "+
			"then 2–14 steps, each one of: a command issued on the connection authenticated as u (commands of all five families incl. multi-key commands with one permitted and one forbidden key — MGET, DEL, MSET, RENAME, S*STORE, LMOVE, SMOVE, Z*STORE —, PUBLISH/SUBSCRIBE, ACL/admin/connection commands), the same on a connection that never authenticated, or a rule change by the admin (further SETUSER edits, off/on, DELUSER). "+
			"Oracle: a declarative evaluator of the property statement over the rules the server itself reports (ACL GETUSER), the categories of the live table (ACL CAT) and the harness's own key/channel table. DENY expected ⇒ the reply is an error and the dataset digest, ACL LIST, PUBSUB NUMSUB and the connection's identity (ACL WHOAMI) are unchanged. ALLOW expected ⇒ the reply equals the twin's reply by meaning and both datasets stay equal. Ambiguous cases (read-modify-write on a key with only one of the two permissions, '+cmd' for a sub-command) are not asserted. "+
			"A case is one rule set plus its steps; non-trivial = the rule set has at least one restrictive rule and a step's command touches a key or channel; 'mixed' cases (a multi-key command with one allowed and one forbidden key) are counted separately; distinct = FNV-64 of rules and steps.",
		"embedded API access to the server under test is used only for observation (it bypasses the ACL by design)",
		"rule-set construction and lifecycle (how SETUSER tokens turn into rules, SAVE/LOAD) is C11's subject; here the reported rules are the input",
		"histories also contain failed authentication attempts on the user's connection (identity and verdicts must not change) and SAVE / edit / LOAD REPLACE of the rules under the authenticated connection")
	common.Main(m, rec)
}

type world struct {
	a, b   *sut.Server
	port   int
	admin  *sut.Conn
	user   *sut.Conn
	anon   *sut.Conn
	cats   map[string][]string // "cmd" / "cmd|sub" -> categories
	rules  acl.Rules
	authed bool
	aclDir string
}

var catCache map[string][]string

func newWorld(t interface{ Fatalf(string, ...any) }) *world {
	w := &world{port: sut.FreePort()}
	var err error
	w.aclDir = sut.NewScratchDir("c06acl")
	w.a, err = sut.New(sut.Opts{Port: w.port, RequirePass: true, Password: "adminpw", AclConfig: filepath.Join(w.aclDir, "acl.json")})
	if err != nil {
		t.Fatalf("HARNESS-ERROR: %v", err)
	}
	w.b, err = sut.New(sut.Opts{Clock: w.a.Clock})
	if err != nil {
		t.Fatalf("HARNESS-ERROR: %v", err)
	}
	dial := func() *sut.Conn {
		c, err := sut.Dial(w.port)
		if err != nil {
			t.Fatalf("HARNESS-ERROR: dial: %v", err)
		}
		c.Timeout = 3 * time.Second
		c.Do("PING")
		return c
	}
	w.admin, w.user, w.anon = dial(), dial(), dial()
	if r := w.admin.Do("AUTH", "adminpw"); r.Val.IsErr() {
		t.Fatalf("HARNESS-ERROR: admin AUTH: %s", r.String())
	}
	if catCache == nil {
		catCache = map[string][]string{}
		cl, _ := w.admin.Do("ACL", "CAT").Val.Strings()
		for _, c := range cl {
			names, _ := w.admin.Do("ACL", "CAT", c).Val.Strings()
			for _, n := range names {
				catCache[n] = append(catCache[n], c)
			}
		}
		rec.Set("commands_with_categories", len(catCache))
	}
	w.cats = catCache
	return w
}

func (w *world) close() {
	for _, c := range []*sut.Conn{w.admin, w.user, w.anon} {
		if c != nil {
			c.Close()
		}
	}
	w.a.Close()
	w.a.RemoveDir()
	w.b.Close()
	w.b.RemoveDir()
	if w.aclDir != "" {
		_ = os.RemoveAll(w.aclDir)
	}
}

func (w *world) categories(comm string) []string {
	name := strings.SplitN(comm, "|", 2)[0]
	set := map[string]bool{}
	for _, c := range w.cats[comm] {
		set[c] = true
	}
	if name != comm {
		for _, c := range w.cats[name] {
			set[c] = true
		}
	}
	out := make([]string, 0, len(set))
	for c := range set {
		out = append(out, c)
	}
	sort.Strings(out)
	return out
}

var subcommandHeads = map[string]bool{"acl": true, "command": true, "pubsub": true, "module": true}

func commOf(cmd []string) string {
	n := strings.ToLower(cmd[0])
	if subcommandHeads[n] && len(cmd) > 1 {
		return n + "|" + strings.ToLower(cmd[1])
	}
	return n
}

func (w *world) refreshRules() {
	w.rules = acl.ParseGetUser(w.admin.Do("ACL", "GETUSER", "u").Val)
}

type snapshot struct {
	digest  string
	aclList string
	numsub  string
}

func (w *world) observe() snapshot {
	d := w.a.TakeDigest(dbs, keys)
	l, _ := w.admin.Do("ACL", "LIST").Val.Strings()
	sort.Strings(l)
	ns := w.admin.Do("PUBSUB", "NUMSUB", "ch1", "ch2", "x").Val.Canon()
	return snapshot{d.Canon(), strings.Join(l, "\n"), ns}
}

type step struct {
	Kind string   `json:"kind"` // "user" | "anon" | "admin"
	Cmd  []string `json:"cmd"`
}

var globs = []string{"*", "a*", "b*", "a1", "k:*", "?1", "[ab]1", "z*"}
var categoriesPool = []string{"read", "write", "fast", "slow", "hash", "set", "sortedset", "list", "string", "keyspace", "pubsub", "connection", "admin", "dangerous"}
var commandPool = []string{"get", "set", "mget", "del", "mset", "hset", "hget", "lpush", "lrange", "sadd", "smembers", "zadd", "zrange", "rename", "publish", "subscribe", "acl|whoami", "acl|list", "acl|setuser", "flushdb", "select", "incr", "sunionstore", "lmove", "type"}

func genRules(t *rapid.T, label string, first bool) []string {
	var r []string
	if first {
		r = append(r, "on", ">pw")
	}
	n := rapid.IntRange(0, 5).Draw(t, label+"_n")
	for i := 0; i < n; i++ {
		switch rapid.IntRange(0, 15).Draw(t, label+"_kind") {
		case 0:
			r = append(r, "allCategories")
		case 1, 2:
			r = append(r, "+@"+rapid.SampledFrom(categoriesPool).Draw(t, "cat"))
		case 3:
			r = append(r, "-@"+rapid.SampledFrom(categoriesPool).Draw(t, "cat"))
		case 4:
			r = append(r, "allCommands")
		case 5, 6:
			r = append(r, "+"+rapid.SampledFrom(commandPool).Draw(t, "cmd"))
		case 7:
			r = append(r, "-"+rapid.SampledFrom(commandPool).Draw(t, "cmd"))
		case 8, 9:
			r = append(r, "%RW~"+rapid.SampledFrom(globs).Draw(t, "g"))
		case 10:
			r = append(r, "%R~"+rapid.SampledFrom(globs).Draw(t, "g"))
		case 11:
			r = append(r, "%W~"+rapid.SampledFrom(globs).Draw(t, "g"))
		case 12:
			r = append(r, rapid.SampledFrom([]string{"allKeys", "nokeys", "resetkeys", "~" + rapid.SampledFrom(globs).Draw(t, "g2")}).Draw(t, "keyflag"))
		case 13:
			r = append(r, "+&"+rapid.SampledFrom([]string{"*", "ch*", "ch1", "x"}).Draw(t, "chg"))
		case 14:
			r = append(r, "-&"+rapid.SampledFrom([]string{"ch2", "ch*", "x"}).Draw(t, "chg"))
		default:
			r = append(r, rapid.SampledFrom([]string{"allChannels", "resetchannels"}).Draw(t, "chflag"))
		}
	}
	return r
}

func genUserCmd(t *rapid.T, m *model.Model) []string {
	k := func(l string) string { return rapid.SampledFrom(keys).Draw(t, l) }
	switch rapid.IntRange(0, 12).Draw(t, "ucmd") {
	case 0, 1, 2, 3:
		// multi-key commands, often with mixed permissions
		return rapid.SampledFrom([][]string{
			{"MGET", k("k1"), k("k2")}, {"DEL", k("k1"), k("k2")}, {"MSET", k("k1"), "v1", k("k2"), "v2"}, {"RENAME", k("k1"), k("k2")},
			{"SUNIONSTORE", k("k1"), k("k2"), k("k3")}, {"SINTERSTORE", k("k1"), k("k2")}, {"LMOVE", k("k1"), k("k2"), "LEFT", "RIGHT"}, {"SMOVE", k("k1"), k("k2"), "m1"},
			{"ZUNIONSTORE", k("k1"), k("k2"), k("k3")}, {"SUNION", k("k1"), k("k2")}, {"SDIFF", k("k1"), k("k2")}, {"ZUNION", k("k1"), k("k2")}, {"TOUCH", k("k1"), k("k2")},
			{"ZUNION", k("k1"), "WITHSCORES"}, {"ZINTER", k("k1"), k("k2"), "WITHSCORES"}, {"ZUNION", k("k1"), k("k2"), "AGGREGATE", "MAX"}, {"ZINTER", k("k1"), "WEIGHTS", "2"},
			{"ZRANGESTORE", k("k1"), k("k2"), "-inf", "+inf"}, {"SINTERCARD", k("k1"), k("k2"), "LIMIT", "1"},
		}).Draw(t, "multi")
	case 4, 5, 6, 7:
		return gen.AnyFamilyCmd(t, m, keys)
	case 8:
		return rapid.SampledFrom([][]string{{"PUBLISH", "ch1", "hello"}, {"PUBLISH", "ch2", "hello"}, {"PUBLISH", "x", "m"}, {"PUBSUB", "CHANNELS"}, {"PUBSUB", "NUMPAT"},
			{"PUBSUB", "NUMSUB", "ch1"}, {"PUBSUB", "NUMSUB", "ch2"}, {"PUBSUB", "NUMSUB", "ch1", "x"}}).Draw(t, "ps")
	case 9:
		return rapid.SampledFrom([][]string{{"ACL", "WHOAMI"}, {"ACL", "LIST"}, {"ACL", "USERS"}, {"ACL", "SETUSER", "evil", "on", "nopass", "allCommands"}, {"ACL", "DELUSER", "u"}, {"ACL", "GETUSER", "default"}, {"ACL", "CAT"}}).Draw(t, "aclcmd")
	case 10:
		return rapid.SampledFrom([][]string{{"FLUSHDB"}, {"FLUSHALL"}, {"SELECT", "1"}, {"SWAPDB", "0", "1"}, {"SAVE"}, {"LASTSAVE"}, {"REWRITEAOF"}, {"COMMAND", "COUNT"}, {"COMMAND", "LIST"}, {"RANDOMKEY"}, {"MODULE", "LIST"}}).Draw(t, "adm")
	case 11:
		return rapid.SampledFrom([][]string{{"PING"}, {"ECHO", "x"}, {"HELLO", "2"}}).Draw(t, "exempt")
	default:
		return gen.WriterCmd(t, m, keys)
	}
}

func sanitize(cmd []string) []string {
	out := make([]string, len(cmd))
	for i, a := range cmd {
		out[i] = strings.NewReplacer("\r", "_", "\n", "_").Replace(a)
	}
	return out
}

func sameMeaning(a, b resp.Value) bool {
	if a.IsErr() || b.IsErr() {
		return a.IsErr() && b.IsErr()
	}
	if a.Canon() == b.Canon() {
		return true
	}
	ta, oka := a.Text()
	tb, okb := b.Text()
	if oka && okb {
		return ta == tb
	}
	la, oka := a.List()
	lb, okb := b.List()
	if oka && okb && len(la) == len(lb) {
		ca, cb := make([]string, len(la)), make([]string, len(lb))
		for i := range la {
			ca[i], cb[i] = la[i].Canon(), lb[i].Canon()
		}
		sort.Strings(ca)
		sort.Strings(cb)
		return strings.Join(ca, "\x00") == strings.Join(cb, "\x00")
	}
	return false
}

var randomCmds = map[string]bool{"SPOP": true, "SRANDMEMBER": true, "HRANDFIELD": true, "ZRANDMEMBER": true, "RANDOMKEY": true}

func runCase(t *rapid.T, replayRules []string, replaySteps []step) {
	w := newWorld(t)
	defer w.close()
	var trace []step
	var rules []string
	fail := func(format string, a ...any) {
		msg := fmt.Sprintf(format, a...)
		b, _ := json.MarshalIndent(map[string]any{"property": "C06", "rules": rules, "steps": trace, "reported_rules": w.rules, "failure": msg}, "", " ")
		p := engine.WriteRaw("C06", "random", b)
		t.Fatalf("violation (replay %s): %s", p, msg)
	}
	// dataset prelude on both servers (through the admin connection and the twin's embedded API)
	prelude := [][]string{{"SET", "a1", "v"}, {"SET", "b1", "w"}, {"RPUSH", "a2", "e1", "e2"}, {"SADD", "k:1", "m1", "m2"}}
	for _, c := range prelude {
		w.admin.Do(c...)
		w.b.Do(c...)
	}
	if replayRules != nil {
		rules = replayRules
	} else {
		rules = genRules(t, "rules", true)
	}
	if r := w.admin.Do(append([]string{"ACL", "SETUSER", "u"}, rules...)...); r.Val.IsErr() {
		// a rule set the server refuses is not a case
		return
	}
	w.refreshRules()
	if r := w.user.Do("AUTH", "u", "pw"); !r.Val.IsErr() {
		w.authed = true
	}
	hint := model.New(func() int64 { return w.a.Clock.Now().UnixMilli() })
	restrictive := !(len(w.rules.InclCats) == 1 && w.rules.InclCats[0] == "all" && len(w.rules.ExclCats) == 0 && len(w.rules.InclCmds) == 1 && w.rules.InclCmds[0] == "all" && len(w.rules.ExclCmds) == 0 && !w.rules.NoKeys)
	nontrivial, mixed := false, false
	var steps []step
	if replaySteps != nil {
		steps = replaySteps
	}
	n := len(steps)
	if replaySteps == nil {
		n = rapid.IntRange(2, 14).Draw(t, "nsteps")
	}
	userGone := false
	for i := 0; i < n; i++ {
		var st step
		if replaySteps != nil {
			st = steps[i]
		} else {
			switch rapid.IntRange(0, 9).Draw(t, "stepkind") {
			case 0:
				st = step{Kind: "anon", Cmd: sanitize(genUserCmd(t, hint))}
			case 1:
				edit := genRules(t, "edit", false)
				if rapid.IntRange(0, 3).Draw(t, "onoff") == 0 {
					edit = append(edit, rapid.SampledFrom([]string{"off", "on"}).Draw(t, "flag"))
				}
				if len(edit) == 0 {
					edit = []string{"on"}
				}
				st = step{Kind: "admin", Cmd: append([]string{"ACL", "SETUSER", "u"}, edit...)}
				if rapid.IntRange(0, 9).Draw(t, "del") == 0 {
					st = step{Kind: "admin", Cmd: []string{"ACL", "DELUSER", "u"}}
				}
			case 2:
				if rapid.IntRange(0, 1).Draw(t, "badauth") == 0 {
					// a failed authentication attempt on the user's connection: it must change nothing, in particular
					// not whose rules the following commands are judged by
					st = step{Kind: "badauth", Cmd: rapid.SampledFrom([][]string{{"AUTH", "default", "wrong"}, {"AUTH", "wrong"}, {"AUTH", "u", "wrong"}, {"HELLO", "2", "AUTH", "default", "wrong"}, {"AUTH", "nobody", "x"}}).Draw(t, "badcmd")}
				} else {
					// the rules are saved to the ACL file, edited in memory, and loaded back (REPLACE): the saved rules
					// govern again, also for the connection that was authenticated before
					edit := genRules(t, "ledit", false)
					if len(edit) == 0 {
						edit = []string{"allCategories", "allCommands", "allKeys"}
					}
					st = step{Kind: "admin-load", Cmd: append([]string{"ACL", "SETUSER", "u"}, edit...)}
				}
			default:
				st = step{Kind: "user", Cmd: sanitize(genUserCmd(t, hint))}
			}
		}
		trace = append(trace, st)
		rec.Class("step:" + st.Kind)
		if st.Kind == "badauth" {
			if userGone {
				continue // the deleted user's connection has been closed by the server
			}
			whoBefore := w.user.Do("ACL", "WHOAMI").Val.Canon()
			r := w.user.Do(st.Cmd...)
			if !r.Val.IsErr() {
				fail("%q with a wrong password was answered with %s", st.Cmd, r.String())
			}
			if who := w.user.Do("ACL", "WHOAMI").Val.Canon(); who != whoBefore {
				fail("the failed %q changed the connection's identity from %s to %s", st.Cmd, whoBefore, who)
			}
			continue
		}
		if st.Kind == "admin-load" {
			if userGone {
				continue
			}
			if r := w.admin.Do("ACL", "SAVE"); r.Val.IsErr() {
				continue
			}
			w.admin.Do(st.Cmd...)
			if r := w.admin.Do("ACL", "LOAD", "REPLACE"); r.Val.IsErr() {
				w.refreshRules()
				continue
			}
			w.refreshRules()
			rec.Class("rules restored from the ACL file under an authenticated connection")
			continue
		}
		if st.Kind == "admin" {
			w.admin.Do(st.Cmd...)
			w.refreshRules()
			if strings.EqualFold(st.Cmd[1], "DELUSER") {
				userGone = true
			}
			continue
		}
		if randomCmds[strings.ToUpper(st.Cmd[0])] {
			continue
		}
		comm := commOf(st.Cmd)
		acc := acl.KeysOf(st.Cmd)
		if comm == "pubsub|numsub" {
			// the channels PUBSUB NUMSUB names are channels the command names
			acc = acl.Access{Known: true, Channels: append([]string{}, st.Cmd[2:]...)}
		} else if strings.HasPrefix(comm, "pubsub|") && len(st.Cmd) > 2 {
			acc = acl.Access{}
		}
		conn, authed := w.user, w.authed && !userGone
		if st.Kind == "anon" {
			conn, authed = w.anon, false
		}
		verdict, why := acl.Decide(authed, w.rules, comm, w.categories(comm), acc)
		if userGone && st.Kind == "user" {
			verdict, why = acl.Deny, "user was deleted"
		}
		name := strings.ToUpper(st.Cmd[0])
		if name == "SUBSCRIBE" || name == "PSUBSCRIBE" || name == "UNSUBSCRIBE" || name == "PUNSUBSCRIBE" {
			// subscription mode changes how the connection answers: exercised on a throw-away connection
			tmp, err := sut.Dial(w.port)
			if err != nil {
				t.Fatalf("HARNESS-ERROR: %v", err)
			}
			tmp.Timeout = 2 * time.Second
			if st.Kind == "user" && w.authed && !userGone {
				tmp.Do("AUTH", "u", "pw")
			}
			before := w.observe()
			r := tmp.Do(st.Cmd...)
			if verdict == acl.Deny {
				if !r.Val.IsErr() {
					tmp.Close()
					fail("%s %q must be denied (%s) but was answered with %s", st.Kind, st.Cmd, why, r.String())
				}
				if after := w.observe(); after != before {
					tmp.Close()
					fail("denied %q changed server state: before %+v after %+v", st.Cmd, before, after)
				}
			}
			tmp.Close()
			time.Sleep(2 * time.Millisecond)
			continue
		}
		if len(acc.Read)+len(acc.Write)+len(acc.Channels) > 0 && restrictive {
			nontrivial = true
		}
		if acc.Known && len(acc.Read)+len(acc.Write) >= 2 {
			okc, badc := 0, 0
			for _, k := range append(append([]string{}, acc.Read...), acc.Write...) {
				if matchAny(w.rules.ReadKeys, k) && matchAny(w.rules.WritKeys, k) {
					okc++
				} else {
					badc++
				}
			}
			if okc > 0 && badc > 0 {
				mixed = true
				rec.Class("mixed-permission-key-vector")
			}
		}
		rec.Class("verdict:" + verdict.String())
		switch verdict {
		case acl.Deny:
			before := w.observe()
			whoBefore := conn.Do("ACL", "WHOAMI").Val.Canon()
			r := conn.Do(st.Cmd...)
			if userGone && st.Kind == "user" && r.ParseErr != "" {
				continue // connection closed by DELUSER: refused by construction
			}
			if !r.Val.IsErr() {
				fail("%s connection: %q must be denied (%s) but was answered with %s", st.Kind, st.Cmd, why, r.String())
			}
			if after := w.observe(); after != before {
				fail("denied %q (%s) changed server state:\nbefore %+v\nafter  %+v", st.Cmd, why, before, after)
			}
			if who := conn.Do("ACL", "WHOAMI").Val.Canon(); who != whoBefore {
				fail("denied %q changed the connection's identity from %s to %s", st.Cmd, whoBefore, who)
			}
		case acl.Allow:
			switch name {
			case "ACL", "SELECT", "SWAPDB", "SAVE", "LASTSAVE", "REWRITEAOF", "COMMAND", "MODULE", "PUBSUB", "PUBLISH", "FLUSHALL", "COMMANDS":
				// allowed, but not comparable with the twin (different ACL state / connection state): the
				// only expectation is "not refused for authorization reasons"
				r := conn.Do(st.Cmd...)
				if r.Val.IsErr() && looksLikeAuthError(r.Val.Str) {
					overDenial(st.Cmd)
					continue
				}
				if name == "SELECT" && !r.Val.IsErr() {
					conn.Do("SELECT", "0")
				}
				if name == "SWAPDB" && !r.Val.IsErr() {
					conn.Do(st.Cmd...) // swap back
				}
				if name == "FLUSHALL" && !r.Val.IsErr() {
					w.b.Do("FLUSHALL")
				}
				if name == "ACL" {
					// the user may have edited or deleted itself
					w.refreshRules()
					if !w.rules.Found {
						userGone = true
					}
				}
				continue
			}
			r := conn.Do(st.Cmd...)
			if r.Val.IsErr() && looksLikeAuthError(r.Val.Str) {
				// refused although the rules allow it: the property is one-directional ("can execute only if"),
				// so this is counted, not reported; the twin does not execute the command either
				overDenial(st.Cmd)
				continue
			}
			rb := w.b.Do(st.Cmd...)
			if !sameMeaning(r.Val, rb.Val) {
				fail("allowed %q answered %s for the restricted user but %s on the unrestricted twin", st.Cmd, r.String(), rb.String())
			}
			da, db := w.a.TakeDigest(dbs, keys), w.b.TakeDigest(dbs, keys)
			if d := da.Diff(db); d != "" {
				fail("after allowed %q the dataset differs from the twin's: %s", st.Cmd, d)
			}
			hint.Step(st.Cmd, rb.Val)
		default:
			// not asserted; keep the twin in step with whatever happened
			r := conn.Do(st.Cmd...)
			if name == "ACL" {
				w.refreshRules()
				if !w.rules.Found {
					userGone = true
				}
				continue
			}
			if !r.Val.IsErr() {
				w.b.Do(st.Cmd...)
				da, db := w.a.TakeDigest(dbs, keys), w.b.TakeDigest(dbs, keys)
				if da.Diff(db) != "" {
					// the twin cannot follow (e.g. connection-state commands): resynchronise by copying nothing; end the case
					return
				}
			}
		}
	}
	canon, _ := json.Marshal(map[string]any{"r": rules, "s": trace})
	sample := map[string]any{"rules": strings.Join(rules, " "), "reported": w.rules, "steps": renderSteps(trace), "mixed": mixed}
	rec.Case(string(canon), nontrivial, sample)
}

func renderSteps(s []step) []string {
	out := []string{}
	for _, x := range s {
		out = append(out, fmt.Sprintf("%s %q", x.Kind, x.Cmd))
	}
	return out
}

func matchAny(globs []string, s string) bool {
	for _, g := range globs {
		if g == "*" || acl.Match(g, s) {
			return true
		}
	}
	return false
}

// overDenial counts a command that the rules allow and the server refuses for authorization reasons.
func overDenial(cmd []string) {
	rec.Class("refused although allowed by the rules (not asserted): " + strings.ToUpper(cmd[0]))
}

func looksLikeAuthError(s string) bool {
	s = strings.ToLower(s)
	return strings.Contains(s, "not authori") || strings.Contains(s, "unauthorized") || strings.Contains(s, "must be authenticated")
}

func TestRandom(t *testing.T) {
	if common.ReplayPath() != "" {
		t.Skip()
	}
	defer common.Verdict(t, rec, "random")
	rapid.Check(t, func(t *rapid.T) { runCase(t, nil, nil) })
}

func TestReplay(t *testing.T) {
	p := common.ReplayPath()
	if p == "" {
		t.Skip()
	}
	var rf struct {
		Rules []string `json:"rules"`
		Steps []step   `json:"steps"`
	}
	if err := common.LoadJSON(p, &rf); err != nil {
		t.Fatalf("HARNESS-ERROR: %v", err)
	}
	defer func() {
		if t.Failed() {
			fmt.Printf("VIOLATION property=C06 replay=%s\n", p)
		}
	}()
	rapid.Check(t, func(t *rapid.T) { runCase(t, rf.Rules, rf.Steps) })
}
