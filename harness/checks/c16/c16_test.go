package c16

import (
	"testing"

	"verifharness/common"
	"verifharness/evidence"
	"verifharness/gen"
)

var rec *evidence.Recorder
var fam *common.Family

func TestMain(m *testing.M) {
	rec = evidence.New("C16", "exploration",
		"(1) exhaustive enumeration of every sequence of length ≤ 2 (quick) / ≤ 3 (thorough) over a fixed alphabet of concrete set commands; (2) rapid state machine (1–30 steps) over the 16 set commands (SADD/SREM with duplicate members, SCARD, SISMEMBER, SMISMEMBER, SMEMBERS, SUNION/SINTER/SDIFF with 1–4 operands incl. repeated, missing and wrong-type keys, SINTERCARD with LIMIT 0/1/len, the STORE variants incl. destination equal to a source, SMOVE, SPOP/SRANDMEMBER with boundary counts), wrong arities, keys of other types, DEL, keys {a,b,c}. "+
			"After every command the reply is compared by meaning with a sequential reference model and the state of every key (TYPE, full read, PEXPIRETIME) is compared. A case is one command sequence; non-trivial = ≥ 2 commands address the same key, or some command was answered with an error; distinct = FNV-64 of the command sequence.",
		"embedded API (ExecuteCommand) is the observation point; wire framing is C12's business",
		"details the property and SugarDB's docs leave open are not asserted (see /verif/SPEC.md)")
	fam = &common.Family{Rec: rec, Keys: gen.Keys, Gen: gen.SetCmd, Alphabet: enumAlphabet, MaxSteps: 30}
	common.Main(m, rec)
}

func enumAlphabet(thorough bool) [][]string {
	al := [][]string{
		{"SADD", "a", "x", "y", "x"}, {"SADD", "a", "z"}, {"SADD", "b", "y", "w"}, {"SREM", "a", "x"}, {"SREM", "a", "x", "q", "x"}, {"SCARD", "a"}, {"SISMEMBER", "a", "x"}, {"SMISMEMBER", "a", "x", "q"},
		{"SMEMBERS", "a"}, {"SUNION", "a", "b"}, {"SUNION", "a", "nokey"}, {"SINTER", "a", "b"}, {"SINTER", "a"}, {"SDIFF", "a", "b"}, {"SDIFF", "nokey", "a"}, {"SINTERCARD", "a", "b"}, {"SINTERCARD", "a", "b", "LIMIT", "1"},
		{"SUNIONSTORE", "c", "a", "b"}, {"SINTERSTORE", "a", "a", "b"}, {"SDIFFSTORE", "c", "a", "b"}, {"SMOVE", "a", "b", "x"}, {"SMOVE", "a", "b", "q"}, {"SPOP", "a"}, {"SPOP", "a", "5"}, {"SRANDMEMBER", "a", "-3"},
		{"SMEMBERS", "b"}, {"SMEMBERS", "c"}, {"SET", "a", "str"}, {"DEL", "a"}, {"SADD", "c", "k"},
	}
	if thorough {
		al = append(al, [][]string{
			{"SADD", "a", "", "0", "a\r\nb"}, {"SUNION", "a", "a", "b", "c"}, {"SINTER", "a", "b", "c"}, {"SDIFF", "a", "b", "c"}, {"SINTERSTORE", "c", "c"}, {"SUNIONSTORE", "a", "nokey"}, {"SDIFFSTORE", "a", "a", "a"},
			{"SMOVE", "a", "c", "x"}, {"SMOVE", "a", "a", "x"}, {"SPOP", "b", "1"}, {"SRANDMEMBER", "a", "2"}, {"SRANDMEMBER", "a", "0"}, {"SCARD", "c"}, {"SISMEMBER", "b", "w"}, {"SINTERCARD", "a", "b", "LIMIT", "0"}, {"RPUSH", "b", "e"}, {"SREM", "b", "y"},
		}...)
	}
	return al
}

func TestCorpus(t *testing.T) { fam.Corpus(t) }
func TestRandom(t *testing.T) { fam.Random(t) }
func TestEnum(t *testing.T)   { fam.Enum(t) }
func TestReplay(t *testing.T) { fam.Replay(t) }
