package c10

import (
	"crypto/sha256"
	"encoding/json"
	"fmt"
	"os"
	"path/filepath"
	"sort"
	"strings"
	"sync"
	"testing"
	"time"

	"github.com/echovault/sugardb/verifhook"
	"pgregory.net/rapid"

	"verifharness/common"
	"verifharness/engine"
	"verifharness/evidence"
	"verifharness/findings"
	"verifharness/gen"
	"verifharness/model"
	"verifharness/sut"
)

var rec *evidence.Recorder

var keys = []string{"a", "b", "c"}
var dbs = []int{0, 1, 12}

func TestMain(m *testing.M) {
	rec = evidence.New("C10", "fault_enumeration",
		"rapid-generated cases: 0–3 earlier snapshots of generated datasets, then a good snapshot S0 of dataset A (all value types, databases {0,1,12}, deadlines), then further writes giving dataset B ≠ A and a snapshot attempt during which the data directory is imaged at every failpoint (hook H4) between the file-system operations of TakeSnapshot — before/after the manifest is created, written, closed, after mkdir, after the state file is created, written, fsynced — "+
			"plus, for every image, every prefix length of the manifest and a sample of prefix lengths of the state file (a partially written file). Oracle: every image restores, start-up succeeds, and the restored digest is exactly A or exactly B (never empty, partial or mixed) with LASTSAVE equal to the time of the snapshot that was restored. "+
			"Also: a SAVE that finds nothing new leaves every file under snapshots/ byte-for-byte unchanged and LASTSAVE untouched. A case is one (A, B) pair with all its crash images; non-trivial = S0 exists, A ≠ B and the image lies after the first file operation; distinct = FNV-64 of the generated writes.",
		"a process crash is modelled by copying the data directory at the failpoint, a partial write by truncating the file being written in that image; power loss below file-length granularity and directory-entry reordering are not modelled",
		"no concurrent writers during the snapshot attempt",
		"after every crash image the recovered server writes new data, takes a snapshot and is restarted again: that snapshot must be served")
	common.Main(m, rec)
}

var (
	pmu      sync.Mutex
	pHandler func(string)
	returns  int
	pcond    = sync.NewCond(&pmu)
)

func init() {
	verifhook.SetPointHandler(func(name string) {
		pmu.Lock()
		h := pHandler
		if name == "snap.return" {
			returns++
			pcond.Broadcast()
		}
		pmu.Unlock()
		if h != nil && name != "snap.return" {
			h(name)
		}
	})
}

func setPoint(h func(string)) { pmu.Lock(); pHandler = h; pmu.Unlock() }

func save(s *sut.Server) bool {
	pmu.Lock()
	want := returns + 1
	pmu.Unlock()
	if r := s.Do("SAVE"); r.Val.IsErr() {
		return false
	}
	done := make(chan struct{})
	go func() {
		pmu.Lock()
		for returns < want {
			pcond.Wait()
		}
		pmu.Unlock()
		close(done)
	}()
	select {
	case <-done:
		return true
	case <-time.After(sut.Patience(20 * time.Second)):
		return false
	}
}

func lastSave(s *sut.Server) int64 {
	r := s.Do("LASTSAVE")
	if r.Val.IsErr() {
		return 0
	}
	n, _ := r.Val.AsInt()
	return n
}

// tree hashes every file under dir.
func tree(dir string) string {
	var parts []string
	_ = filepath.Walk(dir, func(p string, info os.FileInfo, err error) error {
		if err != nil || info.IsDir() {
			return nil
		}
		b, _ := os.ReadFile(p)
		rel, _ := filepath.Rel(dir, p)
		parts = append(parts, fmt.Sprintf("%s:%x", rel, sha256.Sum256(b)))
		return nil
	})
	sort.Strings(parts)
	return strings.Join(parts, "\n")
}

type caseData struct {
	Earlier [][][]string `json:"earlier"`
	A       [][]string   `json:"a"`
	B       [][]string   `json:"b"`
}

func genWrites(t *rapid.T, s *sut.Server, label string, lo, hi int) [][]string {
	n := rapid.IntRange(lo, hi).Draw(t, label)
	m := model.New(func() int64 { return s.Clock.Now().UnixMilli() })
	var out [][]string
	for i := 0; i < n; i++ {
		db := rapid.SampledFrom([]string{"0", "0", "1", "12"}).Draw(t, "db")
		c := gen.WriterCmd(t, m, keys)
		for j := range c {
			c[j] = strings.NewReplacer("\r", "_", "\n", "_").Replace(c[j])
		}
		out = append(out, append([]string{db}, c...))
	}
	return out
}

func apply(s *sut.Server, ws [][]string) {
	for _, w := range ws {
		db := 0
		fmt.Sscan(w[0], &db)
		_ = s.Select(db)
		s.Do(w[1:]...)
	}
}

func runCase(t *rapid.T, replay *caseData) {
	root := sut.NewScratchDir("c10")
	defer os.RemoveAll(root)
	data := filepath.Join(root, "data")
	clk := verifhook.NewVirtualClock(sut.Epoch)
	s, err := sut.New(sut.Opts{DataDir: data, Clock: clk})
	if err != nil {
		t.Fatalf("HARNESS-ERROR: %v", err)
	}
	var cd caseData
	if replay != nil {
		cd = *replay
	} else {
		ne := rapid.IntRange(0, 3).Draw(t, "earlier")
		for i := 0; i < ne; i++ {
			cd.Earlier = append(cd.Earlier, genWrites(t, s, "we", 1, 4))
		}
		cd.A = genWrites(t, s, "wa", 2, 8)
		cd.B = genWrites(t, s, "wb", 1, 6)
	}
	fail := func(format string, a ...any) {
		msg := fmt.Sprintf(format, a...)
		b, _ := json.MarshalIndent(map[string]any{"property": "C10", "case": cd, "failure": msg}, "", " ")
		p := engine.WriteRaw("C10", "random", b)
		s.Close()
		t.Fatalf("violation (replay %s): %s", p, msg)
	}
	// Selecting a database creates it, and an (empty) database is part of the snapshot file: read the
	// digest once up front so that the set of existing databases does not change between snapshots.
	s.TakeDigest(dbs, keys)
	for _, e := range cd.Earlier {
		apply(s, e)
		clk.Advance(7 * time.Millisecond)
		if !save(s) {
			fmt.Println("HARNESS-ERROR: snapshot did not return (inconclusive)")
			s.Close()
			return
		}
	}
	apply(s, cd.A)
	clk.Advance(5 * time.Millisecond)
	save(s)
	dA := s.TakeDigest(dbs, keys)
	tA := lastSave(s)
	if tA == 0 && len(dA) > 0 {
		fail("the snapshot of dataset A was not taken: LASTSAVE is unset (dataset %s)", dA.Canon())
	}
	// nothing new: files and LASTSAVE untouched
	snapDir := filepath.Join(data, "snapshots")
	before := tree(snapDir)
	clk.Advance(3 * time.Millisecond)
	save(s)
	if after := tree(snapDir); after != before {
		fail("a SAVE that found nothing new changed files under snapshots/:\nbefore:\n%s\nafter:\n%s", before, after)
	}
	if ls := lastSave(s); ls != tA {
		fail("a SAVE that found nothing new moved LASTSAVE from %d to %d", tA, ls)
	}
	apply(s, cd.B)
	clk.Advance(11 * time.Millisecond)
	dB := s.TakeDigest(dbs, keys)
	type image struct {
		dir, point string
	}
	var images []image
	setPoint(func(name string) {
		if strings.HasPrefix(name, "snap.") {
			dir := filepath.Join(root, fmt.Sprintf("img-%d-%s", len(images), name))
			if err := sut.CopyDir(data, dir); err == nil {
				images = append(images, image{dir, name})
			}
		}
	})
	ok := save(s)
	setPoint(nil)
	if !ok {
		fmt.Println("HARNESS-ERROR: snapshot did not return (inconclusive)")
		s.Close()
		return
	}
	tB := lastSave(s)
	now := clk.Now().UnixMilli()
	s.Close()
	changed := dA.Diff(dB) != ""
	if changed && tB == tA {
		fail("dataset changed from %s to %s but SAVE took no snapshot", dA.Canon(), dB.Canon())
	}
	images = append(images, image{data, "completed"})
	nImages := 0
	check := func(what, dir string) {
		tmp := sut.NewScratchDir("c10r")
		defer os.RemoveAll(tmp)
		_ = sut.CopyDir(dir, tmp)
		r, err := sut.New(sut.Opts{DataDir: tmp, RestoreSnapshot: true, Clock: verifhook.NewVirtualClock(time.UnixMilli(now))})
		if err != nil {
			fail("%s: start-up failed: %v", what, err)
		}
		got := r.TakeDigest(dbs, keys)
		ls := lastSave(r)
		// Durable again after the crash: on the recovered server new data is written and snapshotted, and that
		// snapshot must be what the next restart serves (whatever the crashed attempt left lying around).
		if strings.HasPrefix(what, "process crash at failpoint") && (evidence.Thorough() || nImages%2 == 0) {
			clk2 := r.Clock
			clk2.Advance(1500 * time.Millisecond)
			_ = r.Select(0)
			r.Do("SET", "a", fmt.Sprintf("after-recovery-%d", nImages))
			r.Do("RPUSH", "b", "post", "crash")
			_ = r.Select(0)
			want := r.TakeDigest(dbs, keys)
			_ = r.Select(0)
			if !save(r) {
				// SAVE refused or the snapshot did not return: the recovered server cannot snapshot any more
				rep := r.Do("SAVE")
				r.Close()
				fail("%s: after recovering, a new SAVE did not complete (a second attempt answers %s)", what, rep.String())
			}
			ts := lastSave(r)
			now2 := clk2.Now().UnixMilli()
			r.Close()
			tmp2 := sut.NewScratchDir("c10r2")
			_ = sut.CopyDir(tmp, tmp2)
			r2, err := sut.New(sut.Opts{DataDir: tmp2, RestoreSnapshot: true, Clock: verifhook.NewVirtualClock(time.UnixMilli(now2))})
			if err != nil {
				os.RemoveAll(tmp2)
				fail("%s: after recovering, writing and a completed SAVE, the next start-up failed: %v", what, err)
			}
			got2 := r2.TakeDigest(dbs, keys)
			ls2 := lastSave(r2)
			r2.Close()
			os.RemoveAll(tmp2)
			if d := got2.Diff(aliveAt(want, now2)); d != "" || ls2 != ts {
				fail("%s: after recovering, new data was written and SAVE completed (LASTSAVE %d); the next restart serves %s with LASTSAVE %d instead of %s (%s)", what, ts, got2.Canon(), ls2, aliveAt(want, now2).Canon(), d)
			}
			rec.Add("recovered_then_snapshotted", 1)
		} else {
			r.Close()
		}
		nImages++
		rec.Add("images_restored", 1)
		isA := got.Diff(aliveAt(dA, now)) == "" && (ls == tA)
		isB := got.Diff(aliveAt(dB, now)) == "" && (ls == tB)
		if isA || isB {
			return
		}
		if findings.IsOpen("F-C10-snapshot-not-crash-atomic") {
			rec.Excluded("F-C10-snapshot-not-crash-atomic")
			return
		}
		fail("%s: restored %s with LASTSAVE %d, which is neither the previous snapshot (%s at %d) nor the new one (%s at %d)", what, got.Canon(), ls, aliveAt(dA, now).Canon(), tA, aliveAt(dB, now).Canon(), tB)
	}
	for _, im := range images {
		check(fmt.Sprintf("process crash at failpoint %s", im.point), im.dir)
		rec.Add("crash_points", 1)
		// partial writes of the file being written at this point
		var target string
		switch im.point {
		case "snap.manifest.written":
			target = filepath.Join(im.dir, "snapshots", "manifest.bin.tmp")
			if sut.FileSize(target) == 0 {
				target = filepath.Join(im.dir, "snapshots", "manifest.bin")
			}
		case "snap.state.written":
			// the newest snapshot directory
			ents, _ := os.ReadDir(filepath.Join(im.dir, "snapshots"))
			newest := ""
			for _, e := range ents {
				if e.IsDir() && e.Name() > newest {
					newest = e.Name()
				}
			}
			if newest != "" {
				target = filepath.Join(im.dir, "snapshots", newest, "state.bin")
			}
		}
		if target == "" {
			continue
		}
		size := sut.FileSize(target)
		step := int64(1)
		if strings.HasSuffix(target, "state.bin") && size > 40 {
			step = size / 20
		} else if !evidence.Thorough() && size > 24 {
			step = size / 12 // quick tier: a dozen prefix lengths of the manifest; thorough: every byte
		}
		for cut := int64(0); cut < size; cut += step {
			dir := filepath.Join(root, "partial")
			_ = os.RemoveAll(dir)
			_ = sut.CopyDir(im.dir, dir)
			rel, _ := filepath.Rel(im.dir, target)
			_ = os.Truncate(filepath.Join(dir, rel), cut)
			check(fmt.Sprintf("process crash while %s was being written (%d of %d bytes on disk)", rel, cut, size), dir)
			rec.Add("crash_points", 1)
			rec.Add("partial_writes", 1)
		}
	}
	b, _ := json.Marshal(cd)
	rec.Case(string(b), changed && tA != 0, map[string]any{"earlier_snapshots": len(cd.Earlier), "A": cd.A, "B": cd.B, "images": nImages})
}

func aliveAt(d sut.Digest, nowMs int64) sut.Digest {
	out := sut.Digest{}
	for k, ks := range d {
		if ks.Deadline > 0 && ks.Deadline < nowMs {
			continue
		}
		out[k] = ks
	}
	return out
}

func TestRandom(t *testing.T) {
	if common.ReplayPath() != "" {
		t.Skip()
	}
	defer common.Verdict(t, rec, "random")
	rapid.Check(t, func(t *rapid.T) { runCase(t, nil) })
}

func TestReplay(t *testing.T) {
	p := common.ReplayPath()
	if p == "" {
		t.Skip()
	}
	var rf struct {
		Case caseData `json:"case"`
	}
	if err := common.LoadJSON(p, &rf); err != nil {
		t.Fatalf("HARNESS-ERROR: %v", err)
	}
	defer func() {
		if t.Failed() {
			fmt.Printf("VIOLATION property=C10 replay=%s\n", p)
		}
	}()
	rapid.Check(t, func(t *rapid.T) { runCase(t, &rf.Case) })
}
