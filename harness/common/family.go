package common

import (
	"fmt"
	"testing"

	"pgregory.net/rapid"

	"verifharness/engine"
	"verifharness/evidence"
	"verifharness/model"
	"verifharness/sut"
)

// Family describes a model-based check of one command family (C01, C14–C17): a rapid state machine,
// an exhaustive enumeration over a fixed alphabet, the reproducers of open findings, and replay.
type Family struct {
	Rec      *evidence.Recorder
	Keys     []string
	Gen      func(t *rapid.T, m *model.Model, keys []string) []string
	Alphabet func(thorough bool) [][]string
	MaxSteps int
	Opts     sut.Opts
	// Prelude commands run (through the engine) before every enumerated sequence.
	Prelude [][]string
}

func (f *Family) server(t interface{ Fatalf(string, ...any) }) *sut.Server {
	s, err := sut.New(f.Opts)
	if err != nil {
		t.Fatalf("HARNESS-ERROR: %v", err)
	}
	return s
}

// NonTrivial: ≥ 2 commands address the same key, or some command was answered with an error.
func NonTrivial(tr []engine.TraceStep) bool {
	seen := map[string]int{}
	for _, s := range tr {
		if s.Op != "cmd" {
			continue
		}
		if len(s.Reply) > 3 && s.Reply[:3] == "ERR" {
			return true
		}
		if len(s.Cmd) < 2 {
			continue
		}
		seen[s.Cmd[1]]++
		if seen[s.Cmd[1]] >= 2 {
			return true
		}
	}
	return false
}

func (f *Family) Corpus(t *testing.T) {
	if ReplayPath() != "" {
		t.Skip()
	}
	defer Verdict(t, f.Rec, "corpus")
	RunFindingExamples(t, f.Rec, f.Keys, f.Opts)
}

func (f *Family) Random(t *testing.T) {
	if ReplayPath() != "" {
		t.Skip()
	}
	defer Verdict(t, f.Rec, "random")
	rapid.Check(t, func(t *rapid.T) {
		s := f.server(t)
		defer func() { s.Close(); s.RemoveDir() }()
		e := engine.New(s, f.Keys, f.Rec)
		n := rapid.IntRange(1, f.MaxSteps).Draw(t, "steps")
		for i := 0; i < n; i++ {
			cmd := f.Gen(t, e.M, f.Keys)
			f.Rec.Class("cmd:" + cmd[0])
			if fl := e.Exec(cmd...); fl != nil {
				FailCase(t, f.Rec, "random", nil, e.Trace, fl)
			}
		}
		f.Rec.Case(engine.CanonTrace(e.Trace), NonTrivial(e.Trace), engine.SampleTrace(e.Trace))
	})
}

func (f *Family) Enum(t *testing.T) {
	if ReplayPath() != "" {
		t.Skip()
	}
	defer Verdict(t, f.Rec, "enum")
	thorough := evidence.Thorough()
	al := f.Alphabet(thorough)
	depth := 2
	if thorough {
		depth = 3
	}
	idx := make([]int, depth)
	var total, mine int64
	shard, shards := evidence.Shard(), evidence.Shards()
	runSeq := func(length int) {
		total++
		if int(total)%shards != shard {
			return
		}
		mine++
		s := f.server(t)
		e := engine.New(s, f.Keys, f.Rec)
		fail := func(fl *engine.Failure) {
			s.Close()
			s.RemoveDir()
			FailCase(t, f.Rec, "enum", map[string]any{"depth": length}, e.Trace, fl)
		}
		for _, c := range f.Prelude {
			if fl := e.Exec(c...); fl != nil {
				fail(fl)
			}
		}
		for i := 0; i < length; i++ {
			if fl := e.Exec(al[idx[i]]...); fl != nil {
				fail(fl)
			}
		}
		s.Close()
		s.RemoveDir()
		f.Rec.Case(engine.CanonTrace(e.Trace), NonTrivial(e.Trace), engine.SampleTrace(e.Trace))
	}
	var run func(d, length int)
	run = func(d, length int) {
		if d == length {
			runSeq(length)
			return
		}
		for i := range al {
			idx[d] = i
			run(d+1, length)
		}
	}
	for length := 1; length <= depth; length++ {
		run(0, length)
	}
	f.Rec.Add("enumerated_sequences", mine)
	f.Rec.Set("enum_alphabet", len(al))
	f.Rec.Set("enum_depth", depth)
	f.Rec.SetExhaustive(false)
	t.Logf("enumerated %d of %d sequences (alphabet %d, depth %d)", mine, total, len(al), depth)
}

func (f *Family) Replay(t *testing.T) {
	p := ReplayPath()
	if p == "" {
		t.Skip()
	}
	r, err := LoadReplay(p)
	if err != nil {
		t.Fatalf("HARNESS-ERROR: %v", err)
	}
	s := f.server(t)
	defer func() { s.Close(); s.RemoveDir() }()
	e := engine.New(s, f.Keys, nil)
	if fl := ReplayTrace(e, r.Ops); fl != nil {
		fmt.Printf("VIOLATION property=%s replay=%s\n", f.Rec.Property, p)
		t.Fatalf("replay reproduces: %v", fl)
	}
}
