// Package common holds the boilerplate shared by the per-property check packages.
package common

import (
	"encoding/json"
	"fmt"
	"os"
	"testing"

	"verifharness/engine"
	"verifharness/evidence"
	"verifharness/findings"
	"verifharness/sut"
)

// Main runs the tests of a check binary, prints KNOWN-FINDING lines and writes the evidence shard.
func Main(m *testing.M, rec *evidence.Recorder) {
	code := m.Run()
	if err := findings.Err(); err != nil {
		fmt.Println("HARNESS-ERROR:", err)
		code = 2
	}
	if os.Getenv("VERIF_REPLAY") == "" {
		findings.PrintKnown(rec.Property, rec)
		if err := rec.Write(); err != nil {
			fmt.Println("HARNESS-ERROR: evidence:", err)
			code = 2
		}
	}
	os.Exit(code)
}

// Verdict is deferred by every test leg: a failed leg prints the VIOLATION line of the contract.
func Verdict(t *testing.T, rec *evidence.Recorder, leg string) {
	if t.Failed() {
		if !engine.ReplayWritten(rec.Property, leg) {
			// the leg failed without reporting a violation (a HARNESS-ERROR: no leader, dial failure, ...):
			// inconclusive, never a verdict
			fmt.Printf("HARNESS-ERROR: leg %s of %s failed without a violation report (inconclusive)\n", leg, rec.Property)
			return
		}
		rec.Violation()
		fmt.Printf("VIOLATION property=%s replay=%s/replays/%s-%s.json\n", rec.Property, evidence.Root(), rec.Property, leg)
	}
}

// SkipUnlessLeg lets `check --replay` run only TestReplay and lets normal runs skip it.
func ReplayPath() string { return os.Getenv("VERIF_REPLAY") }

// Fatal is the failure of a generated case: it writes the replay file and fails the test.
type TB interface {
	Fatalf(format string, args ...any)
	Helper()
}

// FailCase writes the replay and fails.
func FailCase(t TB, rec *evidence.Recorder, leg string, config map[string]any, trace []engine.TraceStep, f error) {
	t.Helper()
	p := engine.WriteReplay(engine.Replay{Property: rec.Property, Leg: leg, Config: config, Ops: trace, Failure: f.Error()})
	t.Fatalf("violation (replay %s): %v", p, f)
}

// LoadReplay reads a replay file.
func LoadReplay(path string) (engine.Replay, error) {
	var r engine.Replay
	b, err := os.ReadFile(path)
	if err != nil {
		return r, err
	}
	err = json.Unmarshal(b, &r)
	return r, err
}

// ReplayTrace re-executes the ops of a trace on a fresh engine without rapid.
func ReplayTrace(e *engine.Engine, ops []engine.TraceStep) *engine.Failure {
	for _, op := range ops {
		switch op.Op {
		case "cmd":
			if f := e.Exec(op.Cmd...); f != nil {
				return f
			}
		case "tick":
			if f := e.Tick(); f != nil {
				return f
			}
		case "advance":
			e.Advance(op.Ms)
		case "select":
			e.Select(op.DB)
		}
	}
	return nil
}

// RunFindingExamples replays the deterministic reproducer of every open finding of the property
// through the engine, so that each KNOWN-FINDING line carries a reproduced count from this very run.
func RunFindingExamples(t *testing.T, rec *evidence.Recorder, keys []string, opts sut.Opts) {
	for _, r := range findings.OpenFor(rec.Property) {
		if len(r.Example) == 0 {
			continue
		}
		s, err := sut.New(opts)
		if err != nil {
			t.Fatalf("HARNESS-ERROR: %v", err)
		}
		e := engine.New(s, keys, rec)
		for _, cmd := range r.Example {
			if f := e.Exec(cmd...); f != nil {
				s.Close()
				s.RemoveDir()
				FailCase(t, rec, "corpus", map[string]any{"finding": r.ID}, e.Trace, f)
			}
		}
		s.Close()
		s.RemoveDir()
	}
}

// LoadJSON reads a JSON file into v.
func LoadJSON(path string, v any) error {
	b, err := os.ReadFile(path)
	if err != nil {
		return err
	}
	return json.Unmarshal(b, v)
}
