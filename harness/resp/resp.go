// Package resp is a strict, total RESP2/RESP3 reply parser that is independent of the
// parser the server itself uses. It produces a small value tree that checks compare "by meaning".
package resp

import (
	"errors"
	"fmt"
	"math"
	"sort"
	"strconv"
	"strings"
)

type Kind int

const (
	Nil Kind = iota
	Err
	Simple // +text
	Bulk   // $n text
	Int
	Double
	Bool
	Array
	Map
	Push
	Set
)

func (k Kind) String() string {
	return [...]string{"nil", "err", "simple", "bulk", "int", "double", "bool", "array", "map", "push", "set"}[k]
}

// Value is one parsed RESP value.
type Value struct {
	Kind  Kind
	Str   string  // Err, Simple, Bulk (raw bytes), Double (raw text)
	Int   int64   // Int, Bool (0/1)
	F     float64 // Double
	Elems []Value // Array, Push, Set; Map = k0 v0 k1 v1 ...
}

// ParseError reports the byte offset of the first defect.
type ParseError struct {
	Off int
	Msg string
}

func (e *ParseError) Error() string { return fmt.Sprintf("resp: offset %d: %s", e.Off, e.Msg) }

// ErrIncomplete is returned (wrapped in ParseError.Msg) when the buffer ends inside a value.
var ErrIncomplete = errors.New("incomplete")

func perr(off int, f string, a ...any) error { return &ParseError{Off: off, Msg: fmt.Sprintf(f, a...)} }

// IsIncomplete tells whether err means "need more bytes" rather than "malformed".
func IsIncomplete(err error) bool {
	var pe *ParseError
	if errors.As(err, &pe) {
		return strings.HasPrefix(pe.Msg, "incomplete")
	}
	return false
}

func line(b []byte, off int) (string, int, error) {
	for i := off; i < len(b); i++ {
		if b[i] == '\r' {
			if i+1 >= len(b) {
				return "", 0, perr(len(b), "incomplete: line without LF")
			}
			if b[i+1] != '\n' {
				return "", 0, perr(i, "CR not followed by LF")
			}
			return string(b[off:i]), i + 2, nil
		}
		if b[i] == '\n' {
			return "", 0, perr(i, "bare LF inside a line")
		}
	}
	return "", 0, perr(len(b), "incomplete: unterminated line")
}

// ParseOne parses exactly one value starting at off and returns the offset after it.
func ParseOne(b []byte, off int) (Value, int, error) {
	if off >= len(b) {
		return Value{}, off, perr(off, "incomplete: empty")
	}
	t := b[off]
	switch t {
	case '+', '-':
		s, n, err := line(b, off+1)
		if err != nil {
			return Value{}, off, err
		}
		k := Simple
		if t == '-' {
			k = Err
		}
		return Value{Kind: k, Str: s}, n, nil
	case ':':
		s, n, err := line(b, off+1)
		if err != nil {
			return Value{}, off, err
		}
		i, e := strconv.ParseInt(s, 10, 64)
		if e != nil {
			return Value{}, off, perr(off, "bad integer %q", s)
		}
		return Value{Kind: Int, Int: i}, n, nil
	case ',':
		s, n, err := line(b, off+1)
		if err != nil {
			return Value{}, off, err
		}
		f, e := strconv.ParseFloat(s, 64)
		if e != nil {
			return Value{}, off, perr(off, "bad double %q", s)
		}
		return Value{Kind: Double, F: f, Str: s}, n, nil
	case '#':
		s, n, err := line(b, off+1)
		if err != nil {
			return Value{}, off, err
		}
		if s != "t" && s != "f" {
			return Value{}, off, perr(off, "bad bool %q", s)
		}
		v := Value{Kind: Bool}
		if s == "t" {
			v.Int = 1
		}
		return v, n, nil
	case '_':
		s, n, err := line(b, off+1)
		if err != nil {
			return Value{}, off, err
		}
		if s != "" {
			return Value{}, off, perr(off, "bad null %q", s)
		}
		return Value{Kind: Nil}, n, nil
	case '$':
		s, n, err := line(b, off+1)
		if err != nil {
			return Value{}, off, err
		}
		l, e := strconv.ParseInt(s, 10, 64)
		if e != nil || l < -1 {
			return Value{}, off, perr(off, "bad bulk length %q", s)
		}
		if l == -1 {
			return Value{Kind: Nil}, n, nil
		}
		if int64(len(b)-n) < l+2 {
			return Value{}, off, perr(len(b), "incomplete: bulk of %d bytes, %d available", l, len(b)-n)
		}
		end := n + int(l)
		if b[end] != '\r' || b[end+1] != '\n' {
			return Value{}, off, perr(end, "bulk of declared length %d not terminated by CRLF", l)
		}
		return Value{Kind: Bulk, Str: string(b[n:end])}, end + 2, nil
	case '*', '>', '~', '%':
		s, n, err := line(b, off+1)
		if err != nil {
			return Value{}, off, err
		}
		l, e := strconv.ParseInt(s, 10, 64)
		if e != nil || l < -1 {
			return Value{}, off, perr(off, "bad aggregate length %q", s)
		}
		if l == -1 {
			if t != '*' {
				return Value{}, off, perr(off, "null aggregate of type %c", t)
			}
			return Value{Kind: Nil}, n, nil
		}
		k := Array
		cnt := int(l)
		switch t {
		case '>':
			k = Push
		case '~':
			k = Set
		case '%':
			k = Map
			cnt = 2 * int(l)
		}
		v := Value{Kind: k, Elems: make([]Value, 0, min(cnt, 1024))}
		for i := 0; i < cnt; i++ {
			el, nn, err := ParseOne(b, n)
			if err != nil {
				return Value{}, off, err
			}
			v.Elems = append(v.Elems, el)
			n = nn
		}
		return v, n, nil
	default:
		return Value{}, off, perr(off, "unknown type byte %q", t)
	}
}

// ParseExact parses b as exactly one value with no trailing bytes.
func ParseExact(b []byte) (Value, error) {
	v, n, err := ParseOne(b, 0)
	if err != nil {
		return Value{}, err
	}
	if n != len(b) {
		return Value{}, perr(n, "trailing garbage after value: %q", trunc(string(b[n:]), 40))
	}
	return v, nil
}

// ParseAll parses b as a sequence of complete values. rest is the number of unparsed bytes when the
// tail is an incomplete value (err == nil in that case only if rest == 0).
func ParseAll(b []byte) (vals []Value, consumed int, err error) {
	off := 0
	for off < len(b) {
		v, n, e := ParseOne(b, off)
		if e != nil {
			return vals, off, e
		}
		vals = append(vals, v)
		off = n
	}
	return vals, off, nil
}

func trunc(s string, n int) string {
	if len(s) > n {
		return s[:n] + "..."
	}
	return s
}

// ---- meaning-level helpers ----

func (v Value) IsErr() bool { return v.Kind == Err }
func (v Value) IsNil() bool { return v.Kind == Nil }

// Text returns the scalar text of a simple/bulk/int/double/bool value.
func (v Value) Text() (string, bool) {
	switch v.Kind {
	case Simple, Bulk:
		return v.Str, true
	case Int:
		return strconv.FormatInt(v.Int, 10), true
	case Double:
		return v.Str, true
	case Bool:
		if v.Int == 1 {
			return "1", true
		}
		return "0", true
	}
	return "", false
}

// AsInt interprets an integer reply or numeric text.
func (v Value) AsInt() (int64, bool) {
	switch v.Kind {
	case Int, Bool:
		return v.Int, true
	case Simple, Bulk:
		i, err := strconv.ParseInt(v.Str, 10, 64)
		return i, err == nil
	case Double:
		if v.F == math.Trunc(v.F) && math.Abs(v.F) < 1e15 {
			return int64(v.F), true
		}
	}
	return 0, false
}

// AsFloat interprets any numeric reply.
func (v Value) AsFloat() (float64, bool) {
	switch v.Kind {
	case Int:
		return float64(v.Int), true
	case Double:
		return v.F, true
	case Simple, Bulk:
		s := strings.ToLower(v.Str)
		switch s {
		case "inf", "+inf":
			return math.Inf(1), true
		case "-inf":
			return math.Inf(-1), true
		}
		f, err := strconv.ParseFloat(v.Str, 64)
		return f, err == nil
	}
	return 0, false
}

// List returns the elements of an array-like value (array, set, push; a map is flattened).
func (v Value) List() ([]Value, bool) {
	switch v.Kind {
	case Array, Set, Push, Map:
		return v.Elems, true
	}
	return nil, false
}

// Strings returns the elements as texts; nil elements become the marker "\x00<nil>".
const NilMarker = "\x00<nil>"

func (v Value) Strings() ([]string, bool) {
	l, ok := v.List()
	if !ok {
		return nil, false
	}
	out := make([]string, len(l))
	for i, e := range l {
		if e.IsNil() {
			out[i] = NilMarker
			continue
		}
		s, ok := e.Text()
		if !ok {
			return nil, false
		}
		out[i] = s
	}
	return out, true
}

// Canon renders a value in a compact canonical human-readable form (for samples and replays).
func (v Value) Canon() string {
	switch v.Kind {
	case Nil:
		return "nil"
	case Err:
		return "ERR(" + v.Str + ")"
	case Simple:
		return "+" + strconv.Quote(v.Str)
	case Bulk:
		return strconv.Quote(v.Str)
	case Int:
		return ":" + strconv.FormatInt(v.Int, 10)
	case Double:
		return "," + v.Str
	case Bool:
		if v.Int == 1 {
			return "#t"
		}
		return "#f"
	}
	parts := make([]string, len(v.Elems))
	for i, e := range v.Elems {
		parts[i] = e.Canon()
	}
	open := map[Kind]string{Array: "[", Map: "%[", Push: ">[", Set: "~["}[v.Kind]
	return open + strings.Join(parts, " ") + "]"
}

// SortedStrings returns a sorted copy.
func SortedStrings(s []string) []string {
	c := append([]string(nil), s...)
	sort.Strings(c)
	return c
}
