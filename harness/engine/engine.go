// Package engine runs commands against a server and the reference model side by side, compares reply
// and state after every step, attributes deviations to open known findings (re-synchronising the
// model) and records the executed trace for replay files.
package engine

import (
	"encoding/json"
	"fmt"
	"os"
	"path/filepath"
	"strings"
	"sync"
	"time"

	"verifharness/evidence"
	"verifharness/findings"
	"verifharness/model"
	"verifharness/resp"
	"verifharness/sut"
)

// TraceStep is one executed operation.
type TraceStep struct {
	Op      string   `json:"op"` // "cmd" | "advance" | "select" | other leg-specific ops
	Cmd     []string `json:"cmd,omitempty"`
	Ms      int64    `json:"ms,omitempty"`
	DB      int      `json:"db,omitempty"`
	Reply   string   `json:"reply,omitempty"`
	Finding string   `json:"finding,omitempty"`
}

// Engine couples one server with one model.
type Engine struct {
	S     *sut.Server
	M     *model.Model
	Keys  []string // key universe whose state is compared after every step
	DBs   []int    // databases compared after every step (default: the current one)
	Rec   *evidence.Recorder
	Trace []TraceStep
	// Unknown counts commands the model has no semantics for (their replies are not judged).
	Unknown int
	// Hits lists the finding ids that explained deviations in this case.
	Hits map[string]int
	// CompareAll: compare every database in DBs after each step (C20); otherwise only the current one.
	CompareAll bool
	// Run executes the command under test (default: the embedded API). Observation always uses the
	// embedded API.
	Run func(args ...string) sut.Reply
	// ObserverDB is the database the embedded connection is logically on (restored after observing).
	ObserverDB *int
}

// New creates an engine on a fresh model whose clock is the server's virtual clock.
func New(s *sut.Server, keys []string, rec *evidence.Recorder) *Engine {
	m := model.New(func() int64 { return s.Clock.Now().UnixMilli() })
	return &Engine{S: s, M: m, Keys: keys, Rec: rec, Hits: map[string]int{}}
}

// Failure is a deviation no open finding explains.
type Failure struct {
	Step int
	Cmd  []string
	Devs []findings.Deviation
}

func (f *Failure) Error() string {
	var b strings.Builder
	fmt.Fprintf(&b, "step %d %q:", f.Step, f.Cmd)
	for _, d := range f.Devs {
		b.WriteString("\n    " + d.String())
	}
	return b.String()
}

func (e *Engine) doer() model.Doer {
	return func(args ...string) (resp.Value, string) {
		r := e.S.Do(args...)
		return r.Val, r.Panic
	}
}

// ObserveDB reads the universe of one database (switching the embedded connection there and back).
func (e *Engine) ObserveDB(db int) map[string]model.KeyState {
	cur := e.M.Cur
	if e.ObserverDB != nil {
		cur = *e.ObserverDB
		_ = e.S.Select(db)
		defer func() { _ = e.S.Select(cur) }()
	} else if db != cur {
		_ = e.S.Select(db)
		defer func() { _ = e.S.Select(cur) }()
	}
	out := make(map[string]model.KeyState, len(e.Keys))
	for _, k := range e.Keys {
		out[k] = model.Observe(e.doer(), k)
	}
	return out
}

// Select switches the selected database of both sides.
func (e *Engine) Select(db int) {
	_ = e.S.Select(db)
	e.M.Cur = db
	e.Trace = append(e.Trace, TraceStep{Op: "select", DB: db})
}

// Advance moves the virtual clock.
func (e *Engine) Advance(ms int64) {
	e.S.Clock.Advance(msDur(ms))
	e.Trace = append(e.Trace, TraceStep{Op: "advance", Ms: ms})
}

// Tick runs one pass of the background expiry sampler (hook H2) for every database in use and then
// compares the state: a pass may only remove keys that are past their deadline, which the model has
// already forgotten, so the expected state is unchanged.
func (e *Engine) Tick() *Failure {
	e.Trace = append(e.Trace, TraceStep{Op: "tick"})
	var devs []findings.Deviation
	func() {
		defer func() {
			if r := recover(); r != nil {
				devs = append(devs, findings.Deviation{Kind: "panic", Panic: fmt.Sprintf("expiry sampler: %v", r)})
			}
		}()
		dbs := []int{e.M.Cur}
		if e.CompareAll {
			dbs = e.DBs
		}
		for _, db := range dbs {
			if err := e.S.DB.VerifRunExpirySampler(db); err != nil {
				devs = append(devs, findings.Deviation{Kind: "panic", Panic: "expiry sampler returned an error: " + err.Error()})
			}
		}
	}()
	e.M.Touched = e.M.Touched[:0]
	e.M.Soft = false
	for _, k := range e.Keys {
		obs := model.Observe(e.doer(), k)
		if d := model.CompareKey(k, e.M.Expected(e.M.Cur, k), obs); d != nil {
			devs = append(devs, findings.Deviation{Kind: "state", Diff: d})
		}
	}
	if len(devs) == 0 {
		return nil
	}
	ctx := &findings.Ctx{Cmd: []string{"@TICK"}, Pre: e.M.Clone(), NowMs: e.M.NowMs()}
	var un []findings.Deviation
	for i := range devs {
		if id := findings.Explain(ctx, &devs[i]); id != "" {
			e.Hits[id]++
			if e.Rec != nil {
				e.Rec.Excluded(id)
			}
		} else {
			un = append(un, devs[i])
		}
	}
	if len(un) > 0 {
		if surveyFile != nil {
			for _, d := range un {
				fmt.Fprintf(surveyFile, "@TICK | [\"@TICK\"] | %s |\n", strings.ReplaceAll(d.String(), "\n", " // "))
			}
		} else {
			return &Failure{Step: len(e.Trace) - 1, Cmd: []string{"@TICK"}, Devs: un}
		}
	}
	for _, k := range e.Keys {
		e.M.Adopt(e.M.Cur, k, model.Observe(e.doer(), k))
	}
	return nil
}

// Exec runs one command on both sides and compares.
func (e *Engine) Exec(cmd ...string) *Failure {
	pre := e.M.Clone()
	now := e.M.NowMs()
	var rep sut.Reply
	if e.Run != nil {
		rep = e.Run(cmd...)
	} else {
		rep = e.S.Do(cmd...)
	}
	step := TraceStep{Op: "cmd", Cmd: cmd, Reply: rep.String()}
	var devs []findings.Deviation
	if rep.Panic != "" {
		devs = append(devs, findings.Deviation{Kind: "panic", Panic: firstLines(rep.Panic, 12)})
	}
	merr, known := e.M.Step(cmd, rep.Val)
	if !known {
		e.Unknown++
	}
	if merr != nil && rep.Panic == "" {
		if mm, ok := merr.(*model.Mismatch); ok {
			devs = append(devs, findings.Deviation{Kind: "reply", Reply: mm})
		}
	}
	soft := map[string]bool{}
	if e.M.Soft {
		for _, k := range e.M.Touched {
			soft[k] = true
		}
	}
	dbs := []int{e.M.Cur}
	if e.CompareAll {
		dbs = e.DBs
	}
	type obsKey struct {
		db  int
		key string
	}
	observed := map[obsKey]model.KeyState{}
	for _, db := range dbs {
		obs := e.ObserveDB(db)
		for _, k := range e.Keys {
			observed[obsKey{db, k}] = obs[k]
			if db == e.M.Cur && soft[k] {
				// The specification leaves the effect open: adopt what the server did.
				if strings.HasPrefix(obs[k].Type, "!") {
					devs = append(devs, findings.Deviation{Kind: "state", Diff: &model.Diff{Key: k, Part: "observe", Got: obs[k]}})
					continue
				}
				if obs[k].Hidden != 0 {
					// A Soft step (undefined arithmetic such as inf*0 or inf-inf) left NaN-scored members,
					// which no range query returns: outside the modelled domain, drop the key on both sides.
					e.S.Do("DEL", k)
					e.M.Adopt(db, k, model.KeyState{Type: model.TNone})
					if e.Rec != nil {
						e.Rec.Class("nan-score-escape")
					}
					continue
				}
				if e.M.SoftCheck != nil {
					if msg, ok := e.M.SoftCheck(k, obs[k]); !ok {
						devs = append(devs, findings.Deviation{Kind: "state", Diff: &model.Diff{Key: k, Part: "value", Got: obs[k], Extra: msg, Want: model.KeyState{Type: "?", Note: msg}}})
					}
				}
				if obs[k].Type == model.TList {
					if msg, ok := e.M.SoftCheckList(k, obs[k].L); !ok {
						devs = append(devs, findings.Deviation{Kind: "state", Diff: &model.Diff{Key: k, Part: "value", Got: obs[k], Extra: msg}})
					}
				}
				e.M.Adopt(db, k, obs[k])
				continue
			}
			want := e.M.Expected(db, k)
			if d := model.CompareKey(k, want, obs[k]); d != nil {
				d.Extra = fmt.Sprintf("db %d", db)
				devs = append(devs, findings.Deviation{Kind: "state", Diff: d})
			} else if want.DeadlineAlt != 0 {
				// two deadlines were admissible (see model.Entry.DeadlineAlt): the model follows the server
				e.M.Adopt(db, k, obs[k])
			} else if want.Type != obs[k].Type {
				// An emptied collection may linger as an empty key or vanish (not asserted): the model
				// follows the server so that later existence-dependent commands are judged consistently.
				e.M.Adopt(db, k, obs[k])
			}
		}
	}
	if len(devs) == 0 {
		e.Trace = append(e.Trace, step)
		return nil
	}
	// Every deviation must be explained by an open finding.
	ctx := &findings.Ctx{Cmd: cmd, Pre: pre, NowMs: now, Reply: rep}
	var unexplained []findings.Deviation
	var ids []string
	for i := range devs {
		id := findings.Explain(ctx, &devs[i])
		if id == "" {
			unexplained = append(unexplained, devs[i])
		} else {
			ids = append(ids, id)
		}
	}
	if len(unexplained) > 0 && surveyFile != nil {
		// Survey mode (development aid): log and re-synchronise instead of failing.
		for _, d := range unexplained {
			pk := ""
			if d.Kind == "state" {
				pk = " pre=" + pre.Expected(pre.Cur, d.Diff.Key).Canon()
			} else if len(cmd) > 1 {
				pk = " pre=" + pre.Expected(pre.Cur, cmd[1]).Canon()
			}
			fmt.Fprintf(surveyFile, "%s | %q | %s |%s\n", strings.ToUpper(cmd[0]), cmd, strings.ReplaceAll(d.String(), "\n", " // "), pk)
		}
		unexplained = nil
	}
	if len(unexplained) > 0 {
		e.Trace = append(e.Trace, step)
		return &Failure{Step: len(e.Trace) - 1, Cmd: cmd, Devs: unexplained}
	}
	for _, id := range ids {
		e.Hits[id]++
		if e.Rec != nil {
			e.Rec.Excluded(id)
		}
	}
	step.Finding = strings.Join(ids, ",")
	e.Trace = append(e.Trace, step)
	// Re-synchronise: the model adopts the server's state for every compared key.
	for ok, ks := range observed {
		if strings.HasPrefix(ks.Type, "!") {
			// The key cannot even be read (the reader itself deviates): drop it on both sides.
			cur := e.M.Cur
			if ok.db != cur {
				_ = e.S.Select(ok.db)
			}
			e.S.Do("DEL", ok.key)
			if ok.db != cur {
				_ = e.S.Select(cur)
			}
			e.M.Adopt(ok.db, ok.key, model.KeyState{Type: model.TNone})
			continue
		}
		e.M.Adopt(ok.db, ok.key, ks)
	}
	return nil
}

var surveyFile = func() *os.File {
	if p := os.Getenv("VERIF_SURVEY"); p != "" {
		f, _ := os.OpenFile(p, os.O_CREATE|os.O_APPEND|os.O_WRONLY, 0o644)
		return f
	}
	return nil
}()

func firstLines(s string, n int) string {
	lines := strings.SplitN(s, "\n", n+1)
	if len(lines) > n {
		lines = lines[:n]
	}
	return strings.Join(lines, "\n")
}

// Replay is the on-disk form of a failing (or sample) case.
type Replay struct {
	Property string         `json:"property"`
	Leg      string         `json:"leg"`
	Config   map[string]any `json:"config,omitempty"`
	Ops      []TraceStep    `json:"ops"`
	Failure  string         `json:"failure,omitempty"`
}

// WriteReplay writes /verif/replays/<property>-<leg>.json and returns its path.
func WriteReplay(r Replay) string {
	markWritten(r.Property, r.Leg)
	dir := filepath.Join(evidence.Root(), "replays")
	_ = os.MkdirAll(dir, 0o755)
	p := filepath.Join(dir, fmt.Sprintf("%s-%s.json", r.Property, r.Leg))
	b, _ := json.MarshalIndent(r, "", " ")
	_ = os.WriteFile(p, b, 0o644)
	return p
}

// CanonTrace is the canonical encoding of a trace (distinctness key): ops without replies.
func CanonTrace(tr []TraceStep) string {
	var b strings.Builder
	for _, s := range tr {
		switch s.Op {
		case "cmd":
			b.WriteString(strings.Join(s.Cmd, "\x1f"))
		case "advance":
			fmt.Fprintf(&b, "@adv%d", s.Ms)
		case "select":
			fmt.Fprintf(&b, "@sel%d", s.DB)
		default:
			b.WriteString("@" + s.Op)
		}
		b.WriteByte('\x1e')
	}
	return b.String()
}

// SampleTrace renders a trace for the evidence samples (commands and replies, truncated values).
func SampleTrace(tr []TraceStep) []string {
	out := make([]string, 0, len(tr))
	for _, s := range tr {
		switch s.Op {
		case "cmd":
			parts := make([]string, len(s.Cmd))
			for i, a := range s.Cmd {
				if len(a) > 40 {
					a = fmt.Sprintf("%s…(%d bytes)", a[:16], len(a))
				}
				parts[i] = fmt.Sprintf("%q", a)
			}
			r := s.Reply
			if len(r) > 80 {
				r = r[:80] + "…"
			}
			out = append(out, strings.Join(parts, " ")+" -> "+r+ifs(s.Finding != "", "  [finding "+s.Finding+"]"))
		case "advance":
			out = append(out, fmt.Sprintf("advance %dms", s.Ms))
		case "select":
			out = append(out, fmt.Sprintf("select %d", s.DB))
		default:
			out = append(out, s.Op)
		}
	}
	return out
}

func ifs(c bool, s string) string {
	if c {
		return s
	}
	return ""
}

func msDur(ms int64) time.Duration { return time.Duration(ms) * time.Millisecond }

// WriteRaw writes an arbitrary replay document to /verif/replays/<property>-<leg>.json.
func WriteRaw(property, leg string, b []byte) string {
	markWritten(property, leg)
	dir := filepath.Join(evidence.Root(), "replays")
	_ = os.MkdirAll(dir, 0o755)
	p := filepath.Join(dir, fmt.Sprintf("%s-%s.json", property, leg))
	_ = os.WriteFile(p, b, 0o644)
	return p
}

// written remembers which replay files this process has written: a leg that fails without having written one
// did not find a violation (it hit a harness error), and must not be reported as one.
var (
	writtenMu sync.Mutex
	written   = map[string]bool{}
)

func markWritten(property, leg string) {
	writtenMu.Lock()
	written[property+"-"+leg] = true
	writtenMu.Unlock()
}

// ReplayWritten tells whether this process wrote the replay file of the leg.
func ReplayWritten(property, leg string) bool {
	writtenMu.Lock()
	defer writtenMu.Unlock()
	return written[property+"-"+leg]
}
