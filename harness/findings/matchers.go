package findings

import (
	"fmt"
	"math/big"
	"strings"

	"verifharness/model"
)

// retyped returns how a value written as text s reads back on a server that re-types numeric-looking
// strings into int / float64 and prints them with %v (the recorded shape of finding F-C01-adapttype).
// ok is false when s is not numeric-looking (and must therefore be preserved).
func retyped(s string) (string, bool) {
	n, _, err := big.ParseFloat(s, 10, 256, big.ToNearestEven)
	if err != nil {
		return "", false
	}
	if n.IsInt() {
		i, _ := n.Int64()
		return fmt.Sprintf("%v", int(i)), true
	}
	f, _ := n.Float64()
	return fmt.Sprintf("%v", f), true
}

// retypedAlt: hash values are rendered with FormatFloat 'f' by the hash readers.
func retypedAny(want, got string) bool {
	r, ok := retyped(want)
	if !ok || want == got {
		return false
	}
	if r == got {
		return true
	}
	// other renderings of the same re-typed number (hash readers use 'f' formatting, sorted sets too)
	n1, _, e1 := big.ParseFloat(want, 10, 256, big.ToNearestEven)
	n2, _, e2 := big.ParseFloat(got, 10, 256, big.ToNearestEven)
	if e1 != nil || e2 != nil {
		return false
	}
	f1, _ := n1.Float64()
	f2, _ := n2.Float64()
	if n1.IsInt() {
		i1, _ := n1.Int64()
		i2, _ := n2.Int64()
		return n2.IsInt() && i1 == i2
	}
	return f1 == f2
}

func init() {
	// F-C01-adapttype: a numeric-looking string is stored as a number and comes back re-printed.
	Register("F-C01-adapttype", func(c *Ctx, d *Deviation) bool {
		switch d.Kind {
		case "state":
			if d.Diff.Part != "value" {
				return false
			}
			w, g := d.Diff.Want, d.Diff.Got
			switch w.Type {
			case model.TString:
				return retypedAny(w.S, g.S)
			case model.THash:
				if len(w.H) != len(g.H) {
					return false
				}
				differs := false
				for f, wv := range w.H {
					gv, ok := g.H[f]
					if !ok {
						return false
					}
					if wv == gv {
						continue
					}
					if strings.HasPrefix(wv, model.FloatMarker) {
						return false
					}
					if !retypedAny(wv, gv) {
						return false
					}
					differs = true
				}
				return differs
			}
		}
		return false
	})

	// F-C01-getex-option-without-time: GETEX key <EX|PX|EXAT|PXAT|anything> with no time answers with
	// the value instead of an error (pinned by the existing test "Get key and don't set expiration when
	// time not provided").
	Register("F-C01-getex-option-without-time", func(c *Ctx, d *Deviation) bool {
		if d.Kind != "reply" || len(c.Cmd) != 3 || !strings.EqualFold(c.Cmd[0], "GETEX") || strings.EqualFold(c.Cmd[2], "PERSIST") {
			return false
		}
		e := c.PreEntry(c.Cmd[1])
		if e == nil || e.Type != model.TString {
			return false
		}
		got, ok := c.Reply.Val.Text()
		return ok && !c.Reply.Val.IsErr() && got == e.S
	})
}
