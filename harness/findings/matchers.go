package findings

import (
	"fmt"
	"math/big"
	"sort"
	"strconv"
	"strings"

	"verifharness/model"
	"verifharness/resp"
)

// retyped returns how a value written as text s reads back on a server that re-types numeric-looking
// strings into int / float64 and prints them with %v (the recorded shape of finding F-C01-adapttype).
// ok is false when s is not numeric-looking (and must therefore be preserved).
func retyped(s string) (string, bool) {
	n, _, err := big.ParseFloat(s, 10, 256, big.ToNearestEven)
	if err != nil {
		return "", false
	}
	if n.IsInt() {
		i, _ := n.Int64()
		return fmt.Sprintf("%v", int(i)), true
	}
	f, _ := n.Float64()
	return fmt.Sprintf("%v", f), true
}

// retypedAlt: hash values are rendered with FormatFloat 'f' by the hash readers.
func retypedAny(want, got string) bool {
	r, ok := retyped(want)
	if !ok || want == got {
		return false
	}
	if r == got {
		return true
	}
	// other renderings of the same re-typed number (hash readers use 'f' formatting, sorted sets too)
	n1, _, e1 := big.ParseFloat(want, 10, 256, big.ToNearestEven)
	n2, _, e2 := big.ParseFloat(got, 10, 256, big.ToNearestEven)
	if e1 != nil || e2 != nil {
		return false
	}
	f1, _ := n1.Float64()
	f2, _ := n2.Float64()
	if n1.IsInt() {
		i1, _ := n1.Int64()
		i2, _ := n2.Int64()
		return n2.IsInt() && i1 == i2
	}
	return f1 == f2
}

func init() {
	// F-C01-adapttype: a numeric-looking string is stored as a number and comes back re-printed.
	Register("F-C01-adapttype", func(c *Ctx, d *Deviation) bool {
		switch d.Kind {
		case "state":
			if d.Diff.Part != "value" {
				return false
			}
			w, g := d.Diff.Want, d.Diff.Got
			switch w.Type {
			case model.TString:
				return retypedAny(w.S, g.S)
			case model.THash:
				if len(w.H) != len(g.H) {
					return false
				}
				differs := false
				for f, wv := range w.H {
					gv, ok := g.H[f]
					if !ok {
						return false
					}
					if wv == gv {
						continue
					}
					if strings.HasPrefix(wv, model.FloatMarker) {
						return false
					}
					if !retypedAny(wv, gv) {
						return false
					}
					differs = true
				}
				return differs
			}
		}
		return false
	})

	// F-C01-getex-option-without-time: GETEX key <EX|PX|EXAT|PXAT|anything> with no time answers with
	// the value instead of an error (pinned by the existing test "Get key and don't set expiration when
	// time not provided").
	Register("F-C01-getex-option-without-time", func(c *Ctx, d *Deviation) bool {
		if d.Kind != "reply" || len(c.Cmd) != 3 || !strings.EqualFold(c.Cmd[0], "GETEX") || strings.EqualFold(c.Cmd[2], "PERSIST") {
			return false
		}
		e := c.PreEntry(c.Cmd[1])
		if e == nil || e.Type != model.TString {
			return false
		}
		got, ok := c.Reply.Val.Text()
		return ok && !c.Reply.Val.IsErr() && got == e.S
	})
}

// zaddParts splits a ZADD command into flags and (score, member) pairs.
func zaddParts(cmd []string) (flags map[string]bool, pairs [][2]string) {
	flags = map[string]bool{}
	i := 2
	for ; i < len(cmd); i++ {
		u := strings.ToUpper(cmd[i])
		if u == "NX" || u == "XX" || u == "GT" || u == "LT" || u == "CH" || u == "INCR" {
			flags[u] = true
			continue
		}
		break
	}
	for ; i+1 < len(cmd); i += 2 {
		pairs = append(pairs, [2]string{cmd[i], cmd[i+1]})
	}
	return
}

// zrangeIndexWindow computes the selection of ZRANGE/ZRANGESTORE under the reading that the existing
// tests pin: "LIMIT a b" = positions a..b (inclusive) of the whole ordered set, then the bound filter.
func zrangeIndexWindow(pre *model.Entry, args []string) ([]model.ZPair, bool) {
	if len(args) < 3 {
		return nil, false
	}
	startS, stopS := args[1], args[2]
	var byLex, rev, hasLimit bool
	var off, cnt int64
	for i := 3; i < len(args); i++ {
		switch strings.ToUpper(args[i]) {
		case "BYLEX":
			byLex = true
		case "REV":
			rev = true
		case "LIMIT":
			if i+2 >= len(args) {
				return nil, false
			}
			o, e1 := strconv.ParseInt(args[i+1], 10, 64)
			n, e2 := strconv.ParseInt(args[i+2], 10, 64)
			if e1 != nil || e2 != nil {
				return nil, false
			}
			hasLimit, off, cnt = true, o, n
			i += 2
		}
	}
	if !hasLimit || pre == nil || pre.Type != model.TZSet {
		return nil, false
	}
	all := model.Sorted(pre.Z)
	if byLex {
		sort.Slice(all, func(i, j int) bool { return all[i].M < all[j].M })
	}
	if rev {
		for i, j := 0, len(all)-1; i < j; i, j = i+1, j-1 {
			all[i], all[j] = all[j], all[i]
		}
	}
	if cnt < 0 {
		cnt = int64(len(all)) - off
	}
	var out []model.ZPair
	lo, ok1 := model.ParseScore(startS)
	hi, ok2 := model.ParseScore(stopS)
	for i := off; i <= cnt && i < int64(len(all)); i++ {
		p := all[i]
		if byLex {
			if p.M >= startS && p.M <= stopS {
				out = append(out, p)
			}
		} else if ok1 && ok2 && p.S >= lo && p.S <= hi {
			out = append(out, p)
		}
	}
	return out, true
}

func init() {
	// F-C17-zadd-count-without-ch: without CH, ZADD (no NX/XX) also counts members whose score changed.
	Register("F-C17-zadd-count-without-ch", func(c *Ctx, d *Deviation) bool {
		if d.Kind != "reply" || len(c.Cmd) < 4 || !strings.EqualFold(c.Cmd[0], "ZADD") {
			return false
		}
		flags, pairs := zaddParts(c.Cmd)
		if flags["CH"] || flags["INCR"] || flags["NX"] || flags["XX"] {
			return false
		}
		e := c.PreEntry(c.Cmd[1])
		if e == nil || e.Type != model.TZSet {
			return false
		}
		added, changed := int64(0), int64(0)
		for _, p := range pairs {
			sc, ok := model.ParseScore(p[0])
			if !ok {
				return false
			}
			old, exists := e.Z[p[1]]
			switch {
			case !exists:
				added++
			case flags["GT"] && !(sc > old), flags["LT"] && !(sc < old):
			case sc != old:
				changed++
			}
		}
		got, ok := c.Reply.Val.AsInt()
		return ok && !c.Reply.Val.IsErr() && changed > 0 && got == added+changed
	})

	// F-C17-zrange-limit: LIMIT offset count is applied as a position window offset..count (inclusive)
	// over the whole ordered set before the bound filter (pinned by the existing ZRANGE/ZRANGESTORE tests).
	Register("F-C17-zrange-limit", func(c *Ctx, d *Deviation) bool {
		if len(c.Cmd) < 4 {
			return false
		}
		switch strings.ToUpper(c.Cmd[0]) {
		case "ZRANGE":
			if d.Kind != "reply" {
				return false
			}
			want, ok := zrangeIndexWindow(c.PreEntry(c.Cmd[1]), c.Cmd[1:])
			if !ok {
				return false
			}
			var flat []string
			collect(c.Reply.Val, &flat)
			ws := false
			for _, a := range c.Cmd[4:] {
				if strings.EqualFold(a, "WITHSCORES") {
					ws = true
				}
			}
			stride := 1
			if ws {
				stride = 2
			}
			if len(flat) != stride*len(want) {
				return false
			}
			for i, p := range want {
				if flat[i*stride] != p.M {
					return false
				}
			}
			return true
		case "ZRANGESTORE":
			want, ok := zrangeIndexWindow(c.PreEntry(c.Cmd[2]), c.Cmd[2:])
			if !ok {
				return false
			}
			switch d.Kind {
			case "reply":
				got, isInt := c.Reply.Val.AsInt()
				return isInt && !c.Reply.Val.IsErr() && int(got) == len(want)
			case "state":
				if d.Diff.Key != c.Cmd[1] {
					return false
				}
				if len(d.Diff.Got.Z) != len(want) && !(len(want) == 0 && d.Diff.Got.Type == model.TNone) {
					return false
				}
				for _, p := range want {
					if g, ok := d.Diff.Got.Z[p.M]; !ok || g != p.S {
						return false
					}
				}
				return true
			}
		}
		return false
	})
}

// collect flattens a reply into scalar texts.
func collect(v resp.Value, out *[]string) {
	if l, ok := v.List(); ok {
		for _, e := range l {
			collect(e, out)
		}
		return
	}
	if t, ok := v.Text(); ok {
		*out = append(*out, t)
	}
}

func init() {
	// F-C17-zunionstore-destination-in-sources: the destination is removed from the operand list.
	Register("F-C17-zunionstore-destination-in-sources", func(c *Ctx, d *Deviation) bool {
		if len(c.Cmd) < 3 || !strings.EqualFold(c.Cmd[0], "ZUNIONSTORE") {
			return false
		}
		dst := c.Cmd[1]
		among := false
		for _, a := range c.Cmd[2:] {
			u := strings.ToUpper(a)
			if u == "WEIGHTS" || u == "AGGREGATE" || u == "WITHSCORES" {
				break
			}
			if a == dst {
				among = true
			}
		}
		if !among {
			return false
		}
		switch d.Kind {
		case "reply":
			return true
		case "state":
			return d.Diff.Key == dst
		}
		return false
	})
}
