// Package findings loads /verif/KNOWN_FINDINGS.jsonl and holds the Go matchers that recognise a
// deviation as an instance of a recorded, still open finding. The committed file alone decides what is
// tolerated: a matcher whose id is not listed as "open" is disabled, a "fixed" entry suppresses nothing.
package findings

import (
	"bufio"
	"encoding/json"
	"fmt"
	"os"
	"path/filepath"
	"sort"
	"sync"

	"verifharness/evidence"
	"verifharness/model"
	"verifharness/sut"
)

// Record is one line of KNOWN_FINDINGS.jsonl.
type Record struct {
	ID       string     `json:"id"`
	Property string     `json:"property"`
	Status   string     `json:"status"` // open | fixed
	Site     string     `json:"site,omitempty"`
	What     string     `json:"what"`
	Example  [][]string `json:"example,omitempty"`
	Commit   string     `json:"commit,omitempty"`
}

var (
	once    sync.Once
	records map[string]Record
	order   []string
	loadErr error
)

func load() {
	records = map[string]Record{}
	f, err := os.Open(filepath.Join(evidence.Root(), "KNOWN_FINDINGS.jsonl"))
	if err != nil {
		if os.IsNotExist(err) {
			return
		}
		loadErr = err
		return
	}
	defer f.Close()
	sc := bufio.NewScanner(f)
	sc.Buffer(make([]byte, 1<<20), 1<<20)
	for sc.Scan() {
		line := sc.Bytes()
		if len(line) == 0 || line[0] == '#' {
			continue
		}
		var r Record
		if err := json.Unmarshal(line, &r); err != nil {
			loadErr = fmt.Errorf("KNOWN_FINDINGS.jsonl: %v", err)
			return
		}
		records[r.ID] = r
		order = append(order, r.ID)
	}
}

// Err reports a problem with the findings file (a harness error, not a violation).
func Err() error { once.Do(load); return loadErr }

// IsOpen tells whether id is listed as an open finding.
func IsOpen(id string) bool {
	once.Do(load)
	return records[id].Status == "open"
}

// Get returns the record.
func Get(id string) (Record, bool) { once.Do(load); r, ok := records[id]; return r, ok }

// OpenFor returns the open findings recorded for a property, in file order.
func OpenFor(property string) []Record {
	once.Do(load)
	var out []Record
	for _, id := range order {
		if r := records[id]; r.Property == property && r.Status == "open" {
			out = append(out, r)
		}
	}
	return out
}

// Ctx is what a matcher sees of the step that deviated.
type Ctx struct {
	Cmd   []string
	Pre   *model.Model // model state before the step
	NowMs int64
	Reply sut.Reply
}

// PreEntry returns the model's pre-state entry of key in the current database.
func (c *Ctx) PreEntry(key string) *model.Entry { return c.Pre.Peek(c.Pre.Cur, key) }

// Deviation is one way in which the step deviated from the specification.
type Deviation struct {
	Kind  string          // "panic" | "reply" | "state"
	Reply *model.Mismatch // Kind == reply
	Diff  *model.Diff     // Kind == state
	Panic string
}

func (d Deviation) String() string {
	switch d.Kind {
	case "panic":
		return "handler panic: " + d.Panic
	case "reply":
		return d.Reply.Error()
	default:
		return d.Diff.Error()
	}
}

// Matcher recognises a deviation as an instance of one finding.
type Matcher func(c *Ctx, d *Deviation) bool

var matchers = map[string]Matcher{}

// Register adds a matcher (called from init functions of this package).
func Register(id string, m Matcher) { matchers[id] = m }

// Explain returns the id of an open finding that explains the deviation, or "".
func Explain(c *Ctx, d *Deviation) string {
	once.Do(load)
	ids := make([]string, 0, len(matchers))
	for id := range matchers {
		ids = append(ids, id)
	}
	sort.Strings(ids)
	for _, id := range ids {
		if records[id].Status != "open" {
			continue
		}
		if matchers[id](c, d) {
			return id
		}
	}
	return ""
}

// MatcherIDs lists the ids that have Go matchers.
func MatcherIDs() []string {
	ids := make([]string, 0, len(matchers))
	for id := range matchers {
		ids = append(ids, id)
	}
	sort.Strings(ids)
	return ids
}

// PrintKnown prints one KNOWN-FINDING line per open finding of the property.
func PrintKnown(property string, rec *evidence.Recorder) {
	for _, r := range OpenFor(property) {
		fmt.Printf("KNOWN-FINDING: property=%s id=%s %s (reproduced=%d)\n", property, r.ID, r.What, rec.ExcludedCount(r.ID))
	}
}
